"""Verus unit: backend->frontend channel: vhost/src/vhost_user/backend_req.rs (proxy) and
frontend_req_handler.rs (the frontend's server for backend-initiated requests)."""
import re
from vx import Unit, Source, ExtractError, sha, split_match_arms
import units_backend as ub

BR = "vhost/src/vhost_user/backend_req.rs"
FRH = "vhost/src/vhost_user/frontend_req_handler.rs"
MSG = ub.MSG

O = "old(self).inner_"
N = "final(self).inner_"

BODY_RW = [
    ("R8", r'self\.inner\.lock\(\)\.unwrap\(\)', 'self.lock_inner()'),
    ("R6", r'io::Error::other\("[^"]*"\)', 'io_error_other()'),
    ("R6", r'\.map_err\(Error::ReqHandlerError\)',
     '.map_err(|e: IoError| -> (o: Error) ensures o == Error::ReqHandlerError(e) { Error::ReqHandlerError(e) })'),
    ("R15", r'vec!\[0u8;\s*0\]', 'Vec::new()'),
]
SIG_RW = [("R8", r'&self\b', '&mut self'), ("R16", r'&dyn AsRawFd', '&EventFd')]


def proxy_method(flag, code, body, fds):
    f = "pfr(%s, %s, %s, %s)" % (O, code, body, fds)
    return """
        requires !pfailed(%(O)s)
        ensures
            final(self).acq@ <= old(self).acq@ + 1, // [C10]
            pstate_same(%(O)s, %(N)s),
            !%(O)s.%(flag)s ==> r is Err && plog(%(N)s) == plog(%(O)s) && !pfailed(%(N)s), // [C07]
            (%(O)s.%(flag)s && %(O)s.error is Some) ==> r is Err && plog(%(N)s) == plog(%(O)s) && !pfailed(%(N)s),
            (%(O)s.%(flag)s && %(O)s.error is None) ==> proxy_outcome(%(O)s, %(N)s, %(f)s, r is Ok), // [C18,C01,C06,C10]
            r is Ok ==> r->Ok_0 == 0, // [C18]
""" % dict(O=O, N=N, flag=flag, f=f)


PROXY = {
    "shared_object_add": proxy_method("shared_object_negotiated", 6, "*uuid", "Seq::<int>::empty()"),
    "shared_object_remove": proxy_method("shared_object_negotiated", 7, "*uuid", "Seq::<int>::empty()"),
    "shared_object_lookup": proxy_method("shared_object_negotiated", 8, "*uuid", "seq![fd.fd as int]"),
    "shmem_map": proxy_method("shmem_negotiated", 9, "*req", "seq![fd.fd as int]"),
    "shmem_unmap": proxy_method("shmem_negotiated", 10, "*req", "Seq::<int>::empty()"),
}

SRV_ARMS = {
    # key -> (code, valid expr, call expr)
    "CONFIG_CHANGE_MSG": (2, "(hdr.size == 0 && s_req_ok(hdr))", "Call2::ConfigChange"),
    "SHARED_OBJECT_ADD": (6, ub.body_ok("VhostUserSharedMsg").replace("req_ok", "s_req_ok"), "Call2::Add(%s)" % ub.dec("VhostUserSharedMsg")),
    "SHARED_OBJECT_REMOVE": (7, ub.body_ok("VhostUserSharedMsg").replace("req_ok", "s_req_ok"), "Call2::Remove(%s)" % ub.dec("VhostUserSharedMsg")),
    "SHARED_OBJECT_LOOKUP": (8, ub.body_ok("VhostUserSharedMsg").replace("req_ok", "s_req_ok"), "Call2::Lookup(%s, files->Some_0@[0].id@)" % ub.dec("VhostUserSharedMsg")),
    "SHMEM_MAP": (9, ub.body_ok("VhostUserMMap").replace("req_ok", "s_req_ok"), "Call2::Map(%s, files->Some_0@[0].id@)" % ub.dec("VhostUserMMap")),
    "SHMEM_UNMAP": (10, ub.body_ok("VhostUserMMap").replace("req_ok", "s_req_ok"), "Call2::Unmap(%s)" % ub.dec("VhostUserMMap")),
}


def srv_arm_contract(code, valid, call):
    return """
        requires s_arm_pre(*old(self), hdr, size, buf@, files), hdr.request == %(code)d, buf@.len() == size
        ensures
            s_same(*old(self), *final(self)),
            !(%(valid)s) ==> r is Err && s_nothing(*old(self), *final(self)), // [C06,C18] malformed request: error, handler untouched, nothing written
            (%(valid)s) ==> final(self).backend.trace@ == old(self).backend.trace@.push(%(call)s), // [C18,C06,C09] exactly one invocation, equal arguments, lent descriptor
            (%(valid)s) ==> s_ack_rule(*old(self), *final(self), hdr, wrap_res(final(self).backend.rets@.last())), // [C18] ack iff reply-ack && NEED_REPLY, value per rule
            (%(valid)s) ==> (final(self).sub_sock.io_failed@ || r == wrap_res(final(self).backend.rets@.last())), // [C18]
""" % dict(code=code, valid=valid, call=call)


def build():
    u = Unit("proxy")
    msg = Source(MSG)
    br = Source(BR)
    frh = Source(FRH)
    # [C10] "all calls complete (no self-deadlock)": frame condition over the three endpoints that share a socket behind a mutex
    import scan_locks
    dbl = scan_locks.scan_files(u.rw, ["vhost/src/vhost_user/frontend.rs", BR, "vhost/src/vhost_user/gpu_backend_req.rs"])
    u.scan(["C10"], "no_second_lock_acquisition_while_guard_live", not dbl,
           "in frontend.rs, backend_req.rs and gpu_backend_req.rs no function acquires the endpoint's non-reentrant mutex a second time "
           "(`.lock()`, `self.node()`, or a `self.<method>()` of the same file that acquires it) while a let-bound guard of it is live "
           "(`drop(guard)` ends it): a call cannot block on its own lock; offending: %s" % (dbl or "none"))
    u.raw("use vstd::prelude::*;\nverus! {\n")
    u.env("common.rs")
    ub.gen_enums(u, msg)
    ub.gen_flag_consts_check(u, msg)
    ub.gen_bodies(u, msg)
    u.env("proxy.rs")
    # ---- proxy
    span = br.impl_span(r'^impl BackendInternal$')
    u.raw("impl BackendInternal {")
    u.extracted_fn(br, "check_state", within=span, body_rw=BODY_RW, contract="""
        ensures (r is Ok) == (self.error is None), r is Ok ==> r->Ok_0 == 0""")
    u.extracted_fn(br, "wait_for_ack", within=span, body_rw=BODY_RW, contract="""
        requires !pfailed(*old(self)), hdr_valid_spec(*hdr), hdr.flags & 4 == 0
        ensures pstate_same(*old(self), *final(self)),
            old(self).error is Some ==> r is Err && plog(*final(self)) == plog(*old(self)) && !pfailed(*final(self)),
            (old(self).error is None && !old(self).reply_ack_negotiated) ==> r == Ok::<u64, Error>(0) && plog(*final(self)) == plog(*old(self)) && !pfailed(*final(self)), // [C18] nothing awaited without reply-ack
            (old(self).error is None && old(self).reply_ack_negotiated) ==>
                ((plog(*final(self)) == plog(*old(self)) && pfailed(*final(self)) && r is Err)
                 || (!pfailed(*final(self)) && plog(*final(self)) == plog(*old(self)).push(Ev::Rx(plast_rx(*final(self)))) && plog(*final(self)).last() is Rx
                     && (r is Ok) == (is_reply_for_spec(rx_hdr::<BackendReq>(plast_rx(*final(self))), *hdr) && plast_rx(*final(self)).fds.len() == 0
                                     && VhostUserU64::decode(plast_rx(*final(self)).body).value == 0))), // [C18,C06]
            r is Ok ==> r->Ok_0 == 0,""")
    u.extracted_fn(br, "send_message", within=span, body_rw=BODY_RW, proof_prologue="\n        proof { lemma_flag_consts(); }", contract="""
        requires !pfailed(*old(self)), BackendReq::spec_try_from(request.code()) is Some
        ensures pstate_same(*old(self), *final(self)),
            old(self).error is Some ==> r is Err && plog(*final(self)) == plog(*old(self)) && !pfailed(*final(self)),
            old(self).error is None ==> proxy_outcome(*old(self), *final(self), pfr(*old(self), request.code(), *body, opt_rawfds(fds)), r is Ok), // [C18,C01]
            r is Ok ==> r->Ok_0 == 0,""")
    u.raw("}")
    span0 = br.impl_span(r'^impl Backend$')
    u.raw("impl Backend {")
    for nm, fld, val in (("set_reply_ack_flag", "reply_ack_negotiated", "enable"), ("set_shared_object_flag", "shared_object_negotiated", "enable"),
                         ("set_shmem_flag", "shmem_negotiated", "enable"), ("set_failed", "error", "Some(error)")):
        others = [f for f in ("reply_ack_negotiated", "shared_object_negotiated", "shmem_negotiated", "error", "sock") if f != fld]
        frame = " && ".join("final(self).inner_.%s == old(self).inner_.%s" % (f, f) for f in others)
        u.extracted_fn(br, nm, within=span0, sig_rw=SIG_RW, body_rw=BODY_RW, contract="""
        ensures final(self).acq@ == old(self).acq@ + 1, final(self).inner_.%s == %s, // [C10,C18] one acquisition, this field set
            %s, // [C07,C18,C14] ... and ONLY this field: no other negotiated flag (gate) changes""" % (fld, val, frame))
    u.raw("}")
    # the proxy's initial state (third session): a freshly built proxy has NO negotiated flag and no recorded failure, and talks on the
    # endpoint it was given - so that "impossible before negotiation" (C07) and the gates of C18 start from the closed position
    u.raw("impl Backend {")
    u.extracted_fn(br, "new", within=span0,
                   sig_rw=[("R3", r'Endpoint<VhostUserMsgHeader<BackendReq>>', 'Endpoint<BackendReq>'), ("R3", r'-> Self\b', '-> Backend')],
                   body_rw=[("R8", r'inner:\s*Arc::new\(Mutex::new\((BackendInternal \{[^{}]*\})\)\),?', r'inner_: \1, acq: Ghost(0nat),')],
                   contract="""
        ensures r.inner_.sock == ep, !r.inner_.reply_ack_negotiated, !r.inner_.shared_object_negotiated, !r.inner_.shmem_negotiated, r.inner_.error is None, // [C07,C18:proxy-starts-closed] nothing is negotiated and nothing has failed on a new proxy""")
    u.raw("}")
    span = br.impl_span(r'^impl VhostUserFrontendReqHandler for Backend$')
    u.raw("impl Backend {")
    for name, c in PROXY.items():
        u.extracted_fn(br, name, within=span, contract=c, sig_rw=SIG_RW, body_rw=BODY_RW)
    u.raw("}")
    # ---- server
    span = frh.impl_span(r'impl<S: VhostUserFrontendReqHandler> FrontendReqHandler<S>$')
    u.raw("impl FrontendReqHandler {")
    u.extracted_fn(frh, "check_state", within=span, body_rw=BODY_RW, contract="\n        ensures (r is Ok) == (self.error is None)")
    # the server's construction (third session): it listens on one half of a fresh socket pair and hands out the OTHER half of the same
    # pair for SET_BACKEND_REQ_FD; acknowledgements off, no failure, the caller's handler
    u.extracted_fn(frh, "new", within=span,
                   sig_rw=[("R3", r'backend: Arc<S>', 'backend: HandlerStub2'), ("R3", r'Result<Self>', 'Result<FrontendReqHandler>')],
                   body_rw=[("R6", r'\.map_err\(Error::SocketError\)', '.map_err(|e: IoError| -> (o: Error) ensures o == Error::SocketError(e) { Error::SocketError(e) })'),
                            ("R3", r'Endpoint::<VhostUserMsgHeader<BackendReq>>::from_stream\(', 'Endpoint::<BackendReq>::from_stream(')],
                   contract="""
        ensures r is Ok ==> r->Ok_0.sub_sock.on@.0 == r->Ok_0.tx_sock.pair@ && r->Ok_0.sub_sock.on@.1 != r->Ok_0.tx_sock.side@
                && r->Ok_0.sub_sock.log@ =~= Seq::<Ev>::empty() && !r->Ok_0.sub_sock.io_failed@, // [C18:server-channel] the server reads on one half of a fresh pair, the descriptor it hands out is the other half of the SAME pair; nothing sent or received yet
            r is Ok ==> !r->Ok_0.reply_ack_negotiated && r->Ok_0.error is None && r->Ok_0.backend == backend, // [C18:server-starts-closed,C07] acknowledgements are off and no failure is recorded on a new server""")
    u.extracted_fn(frh, "get_tx_raw_fd", within=span, contract="""
        ensures r == self.tx_sock.fd // [C18:server-channel,C02] the descriptor to send with SET_BACKEND_REQ_FD is the transmit half's""")
    # the server's two state setters (third session): each writes exactly its field
    u.extracted_fn(frh, "set_reply_ack_flag", within=span, body_rw=BODY_RW, contract="""
        ensures final(self).reply_ack_negotiated == enable, final(self).error == old(self).error, final(self).sub_sock == old(self).sub_sock,
            final(self).backend == old(self).backend, // [C18:server-reply-ack-setter,C07] acknowledgements are switched exactly as the caller says; nothing else changes""")
    u.extracted_fn(frh, "set_failed", within=span, body_rw=BODY_RW, contract="""
        ensures final(self).error == (if error == 0 { None::<i32> } else { Some(error) }), final(self).reply_ack_negotiated == old(self).reply_ack_negotiated,
            final(self).sub_sock == old(self).sub_sock, final(self).backend == old(self).backend, // [C18:server-failed-setter] 0 clears the failure, anything else records it: check_state refuses every request while it is set""")
    u.extracted_fn(frh, "check_msg_size", within=span, body_rw=BODY_RW, contract="""
        ensures (r is Ok) == (hdr.size as usize == expected && s_req_ok(*hdr) && size == expected) // [C06]""")
    u.extracted_fn(frh, "check_attached_files", within=span, body_rw=BODY_RW, contract="""
        ensures (r is Ok) == (if hdr.request == 8 || hdr.request == 9 { files is Some && files->Some_0@.len() == 1 } else { files is None }) // [C06,C09] exactly the descriptors the request prescribes""")
    u.extracted_fn(frh, "extract_msg_body", within=span, body_rw=BODY_RW,
                   sig_rw=[("R5", r'T:\s*Sized\s*\+\s*VhostUserMsgValidator', 'T: VhostUserMsgValidator')], contract="""
        requires buf@.len() >= size
        ensures
            (r is Ok) == (hdr.size as nat == T::spec_size() && s_req_ok(*hdr) && size as nat == T::spec_size()
                          && T::decode(buf@.subrange(0, T::spec_size() as int)).valid_spec()), // [C06]
            r is Ok ==> r->Ok_0 == T::decode(buf@.subrange(0, T::spec_size() as int)), // [C18]""")
    u.extracted_fn(frh, "new_reply_header", within=span, body_rw=BODY_RW, sig_rw=[("R5", r'T:\s*Sized', 'T: ByteValued')], contract="""
        ensures
            (r is Ok) == (self.error is None && BackendReq::spec_try_from(req.request) is Some),
            r is Ok ==> r->Ok_0.request == req.request && r->Ok_0.flags == 5 && r->Ok_0.size as nat == T::spec_size(), // [C01,C18]""")
    u.extracted_fn(frh, "send_ack_message", within=span, body_rw=BODY_RW + [("R6", r'libc::EINVAL', '22i32')], contract="""
        requires old(self).error is None, hdr_valid_spec(*req), !old(self).sub_sock.io_failed@
        ensures s_same(*old(self), *final(self)), final(self).backend == old(self).backend,
            s_ack_rule(*old(self), *final(self), *req, *res), // [C18]
            !final(self).sub_sock.io_failed@ ==> r is Ok,""")
    body = frh.fn_body("handle_request", within=span)
    u.spans.append((FRH, "handle_request", sha(body)))
    pro, arms, epi = split_match_arms(body, r'let\s+res\s*=\s*match\s+hdr\.get_code\(\)\s*\{')
    epi_t = u.rewrite_body(epi, BODY_RW).strip()
    if not epi_t.startswith(";"):
        raise ExtractError("frontend_req_handler::handle_request: unexpected text after the dispatch")
    epi_t = epi_t[1:]
    pro_t = u.rewrite_body(pro, BODY_RW)
    u.functions.append("srv_prologue")
    u.raw("""//@begin-extracted %s::handle_request (statements before the dispatch)
    fn srv_prologue(&mut self) -> (r: Result<(VhostUserMsgHeader<BackendReq>, usize, Vec<u8>, Option<Vec<File>>)>)
        requires !old(self).sub_sock.io_failed@
        ensures
            final(self).backend == old(self).backend, slog(*final(self)) == slog(*old(self)), final(self).reply_ack_negotiated == old(self).reply_ack_negotiated, final(self).error == old(self).error,
            r is Ok ==> s_arm_pre(*final(self), r->Ok_0.0, r->Ok_0.1, r->Ok_0.2@, r->Ok_0.3) && r->Ok_0.2@.len() == r->Ok_0.1, // [C06,C09] only well-formed headers with exactly the prescribed descriptors reach an arm
            r is Ok ==> final(self).sub_sock.rx_hdrs@ == old(self).sub_sock.rx_hdrs@ + 1
                && final(self).sub_sock.rx_body@ == (if r->Ok_0.0.size == 0 { old(self).sub_sock.rx_body@ } else { old(self).sub_sock.rx_body@.push(r->Ok_0.0.size as nat) }), // [C08]
    {%s
        Ok((hdr, size, buf, files))
    }
//@end-extracted""" % (FRH, pro_t))
    seen = set()
    for arm in arms:
        pat = re.sub(r'\s+', '', arm["pattern"])
        m = re.fullmatch(r'Ok\(BackendReq::(\w+)\)', pat)
        key = m.group(1) if m else pat
        if key in SRV_ARMS:
            contract = srv_arm_contract(*SRV_ARMS[key])
        elif key == "_":
            contract = """
        requires s_arm_pre(*old(self), hdr, size, buf@, files)
        ensures s_same(*old(self), *final(self)), final(self).backend == old(self).backend, // [C06,C18] unsupported request: handler untouched
            s_ack_rule(*old(self), *final(self), hdr, Err::<u64, Error>(Error::InvalidMessage)), final(self).sub_sock.io_failed@ || r is Err,
"""
        else:
            raise ExtractError("frontend_req_handler::handle_request: arm %s has no registered contract" % key)
        seen.add(key)
        text = u.rewrite_body(arm["text"], BODY_RW)
        fname = "srv_arm_" + (key if key != "_" else "OTHER")
        u.functions.append(fname)
        u.raw("""//@begin-extracted %s::handle_request arm %s (+ the statements after the dispatch)
    #[allow(unused_variables, unused_mut)]
    fn %s(&mut self, hdr: VhostUserMsgHeader<BackendReq>, size: usize, buf: Vec<u8>, files: Option<Vec<File>>) -> (r: Result<u64>)%s    {
        let res = %s;
%s
    }
//@end-extracted""" % (FRH, arm["pattern"].strip(), fname, contract, ("{" + text + "}") if arm["is_block"] else text, epi_t))
    missing = set(SRV_ARMS) - seen
    if missing:
        raise ExtractError("frontend_req_handler::handle_request: registered arms missing: %s" % sorted(missing))
    u.raw("}")
    u.raw("fn main() {}\n} // verus!")
    return u
