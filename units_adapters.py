"""Scan unit: the library's Mutex / RwLock / RefCell / Arc adapters and the VringMutex / VringRwLock wrappers.
Every method must be a one-expression delegation `self.<guard chain>.<same name>(<the parameters, in order>)`.
This is a SYNTACTIC obligation on the extracted text (engine `scan`): it is the contract "exactly one call of the same-named
inner method with the same arguments, returning its result" for code whose whole body is that call; no solver is involved."""
import re
from vx import Unit, Source, ExtractError, match_brace, code_mask

ADAPTERS = [
    # (file, impl header regex, allowed guard chains, properties)
    ("vhost/src/vhost_user/backend_req_handler.rs", r'^impl<T: VhostUserBackendReqHandlerMut> VhostUserBackendReqHandler for Mutex<T>$', [r'self\.lock\(\)\.unwrap\(\)'], ["C02", "C03", "C04"]),
    ("vhost/src/vhost_user/frontend_req_handler.rs", r'^impl<S: VhostUserFrontendReqHandlerMut> VhostUserFrontendReqHandler for Mutex<S>$', [r'self\.lock\(\)\.unwrap\(\)'], ["C18"]),
    ("vhost/src/backend.rs", r'^impl<T: VhostBackendMut> VhostBackend for RwLock<T>$', [r'self\.write\(\)\.unwrap\(\)'], ["C02"]),
    ("vhost/src/backend.rs", r'^impl<T: VhostBackendMut> VhostBackend for RefCell<T>$', [r'self\.borrow_mut\(\)'], ["C02"]),
    ("vhost-user-backend/src/backend.rs", r'^impl<T: VhostUserBackend> VhostUserBackend for Arc<T>$', [r'self\.deref\(\)'], ["C02", "C14"]),
    ("vhost-user-backend/src/backend.rs", r'^impl<T: VhostUserBackendMut> VhostUserBackend for Mutex<T>$', [r'self\.lock\(\)\.unwrap\(\)'], ["C02", "C14"]),
    ("vhost-user-backend/src/backend.rs", r'^impl<T: VhostUserBackendMut> VhostUserBackend for RwLock<T>$', [r'self\.write\(\)\.unwrap\(\)', r'self\.read\(\)\.unwrap\(\)'], ["C02", "C14"]),
    ("vhost-user-backend/src/vring.rs", r"^impl<M: 'static \+ GuestAddressSpace> VringT<M> for VringMutex<M>$", [r'self\.lock\(\)', r'self\.get_ref\(\)', r'self\.state\.lock\(\)\.unwrap\(\)'], ["C14", "C11"]),
    ("vhost-user-backend/src/vring.rs", r"^impl<M: 'static \+ GuestAddressSpace> VringT<M> for VringRwLock<M>$", [r'self\.write_lock\(\)', r'self\.get_ref\(\)', r'self\.read_lock\(\)', r'self\.state\.read\(\)\.unwrap\(\)', r'self\.state\.write\(\)\.unwrap\(\)'], ["C14", "C11"]),
]
SKIP = {"new", "get_ref", "get_mut"}   # constructors / guard accessors are not delegations


# daemon-side handler (handler.rs): request handlers that only pass their arguments on to the device backend. Expected body (white
# space removed) per method; the values the frontend sent reach the backend unchanged and its answer goes back unchanged (C02 / C14).
HANDLER_PASS = {
    "get_config": r'Ok\(self\.backend\.get_config\(offset,size\)\)',
    "set_config": r'self\.backend\.set_config\(offset,buf\)\.map_err\(VhostUserError::ReqHandlerError\)',
    "get_features": r'Ok\(self\.backend\.features\(\)\)',
    "get_protocol_features": r'Ok\(self\.backend\.protocol_features\(\)\)',
    "get_queue_num": r'Ok\(self\.num_queuesasu64\)',
    "set_gpu_socket": r'self\.backend\.set_gpu_socket\(gpu_backend\)\.map_err\(VhostUserError::ReqHandlerError\)',
    "set_device_state_fd": r'self\.backend\.set_device_state_fd\(direction,phase,file\)\.map_err\(VhostUserError::ReqHandlerError\)',
    "check_device_state": r'self\.backend\.check_device_state\(\)\.map_err\(VhostUserError::ReqHandlerError\)',
    "get_shmem_config": r'self\.backend\.get_shmem_config\(\)\.map_err\(VhostUserError::ReqHandlerError\)',
    "get_shared_object": r'matchself\.backend\.get_shared_object\(uuid\)\{Ok\(shared_file\)=>Ok\(shared_file\),Err\(e\)=>Err\(VhostUserError::ReqHandlerError\(io::Error::other\(e\)\)\),\}',
    "set_protocol_features": r'self\.acked_protocol_features=features;Ok\(\(\)\)',
}


def top_level_fns(src, span):
    out = []
    depth = 0
    i = span[0]
    while i < span[1]:
        if src.mask[i]:
            c = src.src[i]
            if c == '{':
                depth += 1
            elif c == '}':
                depth -= 1
            elif depth == 0 and src.src.startswith('fn ', i) and (i == 0 or not (src.src[i - 1].isalnum() or src.src[i - 1] == '_')):
                m = re.match(r'fn\s+(\w+)', src.src[i:])
                out.append(m.group(1))
        i += 1
    return out


def param_names(sig):
    inner = sig[sig.index('(') + 1: sig.rindex(')')] if ')' in sig else ""
    # cut at the matching paren of the parameter list
    depth, end = 0, None
    start = sig.index('(')
    for i in range(start, len(sig)):
        if sig[i] == '(':
            depth += 1
        elif sig[i] == ')':
            depth -= 1
            if depth == 0:
                end = i
                break
    inner = sig[start + 1:end]
    names = []
    depth = 0
    cur = ""
    for ch in inner + ",":
        if ch in "(<[":
            depth += 1
        elif ch in ")>]":
            depth -= 1
        if ch == "," and depth == 0:
            cur = cur.strip()
            if cur and not re.match(r'&?\s*(mut\s+)?self\b', cur):
                names.append(cur.split(":")[0].strip().lstrip("_") if False else cur.split(":")[0].strip())
            cur = ""
        else:
            cur += ch
    return names


def build():
    u = Unit("adapters")
    u.no_verus = True
    srcs = {}
    for rel, hdr, chains, props in ADAPTERS:
        src = srcs.setdefault(rel, Source(rel))
        span = src.impl_span(hdr)
        for fn in top_level_fns(src, span):
            if fn in SKIP:
                continue
            sig = src.fn_sig(fn, within=span)
            body = u.rw.common(src.fn_body(fn, within=span))
            body = re.sub(r'\s+', '', body).rstrip(';')
            params = param_names(re.sub(r'\s+', ' ', u.rw.strip_comments(sig)))
            args = ",".join(params)
            ok = any(re.fullmatch(re.sub(r'\s+', '', ch) + r'\.' + re.escape(fn) + r'\(' + re.escape(args) + r',?\)', body) for ch in chains)
            u.spans.append((rel, "%s::%s" % (hdr.strip('^$')[:60], fn), __import__("vx").sha(body)))
            u.scan(props, "%s::%s" % (re.sub(r'[^A-Za-z<>]+', '_', hdr.strip('^$'))[-50:], fn), ok,
                   "adapter method %s of `%s` in %s is exactly one call of the same-named inner method with the same arguments in the same order (body: %s)"
                   % (fn, hdr.strip('^$'), rel, body[:120]))
    hsrc = Source("vhost-user-backend/src/handler.rs")
    hspan = hsrc.impl_span(r'^impl<T: VhostUserBackend> VhostUserBackendReqHandlerMut for VhostUserHandler<T>')
    for fn, pat in HANDLER_PASS.items():
        body = re.sub(r'\s+', '', u.rw.common(hsrc.fn_body(fn, within=hspan))).rstrip(';')
        u.spans.append(("vhost-user-backend/src/handler.rs", "VhostUserHandler::%s" % fn, __import__("vx").sha(body)))
        u.scan(["C02", "C14"], "handler_pass_through::%s" % fn, re.fullmatch(pat, body) is not None,
               "VhostUserHandler::%s only hands its arguments to the device backend, unchanged and in order, and returns its answer (body: %s)" % (fn, body[:120]))
    u.raw("// scan-only unit: no Verus text")
    return u
