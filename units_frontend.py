"""Verus unit: vhost/src/vhost_user/frontend.rs (frontend endpoint) + message constructors + backend.rs conversions."""
import re
from vx import Unit, Source, ExtractError, sha
import units_backend as ub

FE = "vhost/src/vhost_user/frontend.rs"
MSG = ub.MSG
MOD = ub.MOD
BK = "vhost/src/backend.rs"

O = "old(self).inner"
N = "final(self).inner"
EMPTY8 = "Seq::<u8>::empty()"
NOFD = "Seq::<int>::empty()"


def F(code, size="0", body=EMPTY8, payload=EMPTY8, fds=NOFD):
    return "fr(%s, %s, %s, %s, %s, %s)" % (O, code, size, body, payload, fds)


ERR = "(%s.error is Some)" % O


def ack_contract(rej, frame, acked="%s.acked_protocol_features" % O, state="state_same(%s, %s)" % (O, N), pre=""):
    return """
        requires !failed(%(O)s), hf_ok(%(O)s)%(pre)s
        ensures
            final(self).acq@ <= old(self).acq@ + 1, // [C10] at most one lock acquisition: the whole exchange is one critical section
            (%(rej)s) ==> r is Err && wire_same(%(O)s, %(N)s) && !failed(%(N)s) && state_same(%(O)s, %(N)s), // [C02,C07]
            !(%(rej)s) ==> ack_outcome(%(O)s, %(N)s, %(frame)s, %(acked)s, r is Ok), // [C02,C03,C06,C10,C01]
            %(state)s, // [C07]
""" % dict(O=O, N=N, rej=rej, frame=frame, acked=acked, state=state, pre=pre)


def reply_contract(rej, frame, accept, okval, state="state_same(%s, %s)" % (O, N), pre=""):
    return """
        requires !failed(%(O)s), hf_ok(%(O)s)%(pre)s
        ensures
            final(self).acq@ <= old(self).acq@ + 1, // [C10]
            (%(rej)s) ==> r is Err && wire_same(%(O)s, %(N)s) && !failed(%(N)s) && state_same(%(O)s, %(N)s), // [C02,C07]
            !(%(rej)s) ==> reply_outcome(%(O)s, %(N)s, %(frame)s, r is Ok, %(accept)s), // [C02,C03,C06,C10,C01]
            r is Ok ==> %(okval)s, // [C03,C06]
            %(state)s, // [C07]
""" % dict(O=O, N=N, rej=rej, frame=frame, accept=accept, okval=okval, state=state, pre=pre)


LX = "last_rx(%s)" % N


def matches(frame):
    return "reply_matches(%s, hdr_of(%s))" % (LX, frame)


def gate_pf(bit):
    return "(%s.acked_protocol_features & 0x%x == 0)" % (O, 1 << bit)


QREJ = "(queue_index as u64 >= %s.max_queue_num)" % O

STATE_EXCEPT = lambda *fields: " && ".join(
    "%s.%s == %s.%s" % (N, f, O, f) for f in
    ["virtio_features", "acked_virtio_features", "protocol_features", "acked_protocol_features", "protocol_features_ready",
     "max_queue_num", "error", "hdr_flags"] if f not in fields)


# bytes the GET_CONFIG reply receive waits for (single source: used in the method contract and in the compat lemma, units_compat.py)
GET_CONFIG_DEMAND = "12 + 12 + size"


def methods():
    m = {}
    u64b = lambda v: "VhostUserU64 { value: %s }.bytes()" % v
    vs = lambda a, b: "VhostUserVringState { index: %s, num: %s }.bytes()" % (a, b)
    # ---- impl VhostBackend for Frontend
    f = F(1)
    m["get_features"] = reply_contract(ERR, f, "%s && %s.fds.len() == 0" % (matches(f), LX),
                                       "r->Ok_0 == VhostUserU64::decode(%s.body).value && %s.virtio_features == r->Ok_0" % (LX, N),
                                       state=STATE_EXCEPT("virtio_features") + " && (r is Err ==> %s.virtio_features == %s.virtio_features)" % (N, O))
    f = F(2, "8", u64b("features"))
    m["set_features"] = ack_contract(ERR, f, state=STATE_EXCEPT("acked_virtio_features") +
                                     " && (%s.acked_virtio_features == %s.acked_virtio_features || %s.acked_virtio_features == features & %s.virtio_features)"
                                     " && (r is Ok ==> %s.acked_virtio_features == features & %s.virtio_features)" % (N, O, N, O, N, O))
    m["set_owner"] = ack_contract(ERR, F(3))
    m["reset_owner"] = ack_contract(ERR, F(4))
    m["set_mem_table"] = ack_contract(
        "(%s || regions@.len() == 0 || regions@.len() > 32 || exists|i: int| 0 <= i < regions@.len() && region_bad(#[trigger] regions@[i]))" % ERR,
        F(5, "8 + 32 * regions@.len()", "VhostUserMemory { num_regions: regions@.len() as u32, padding1: 0 }.bytes()",
          "regions_bytes(mt_regions(regions@))", "mt_fds(regions@)"))
    flog = F(6, "16", "VhostUserLog { mmap_size: region->Some_0.mmap_size, mmap_offset: region->Some_0.mmap_offset }.bytes()", EMPTY8,
             "seq![region->Some_0.mmap_handle as int]")
    fbase = F(6, "8", u64b("base"))
    m["set_log_base"] = """
        requires !failed(%(O)s), hf_ok(%(O)s)
        ensures
            final(self).acq@ <= old(self).acq@ + 1, // [C10]
            %(ERR)s ==> r is Err && wire_same(%(O)s, %(N)s) && !failed(%(N)s), // [C02]
            (!%(ERR)s && %(O)s.acked_protocol_features & 0x2 != 0 && region is Some) ==>
                reply_outcome(%(O)s, %(N)s, %(flog)s, r is Ok, %(acc)s && %(LX)s.fds.len() == 0 && log_valid(VhostUserLog::decode(%(LX)s.body))), // [C01,C02,C03,C06,C07,C10]
            (!%(ERR)s && !(%(O)s.acked_protocol_features & 0x2 != 0 && region is Some)) ==>
                (if failed(%(N)s) { r is Err && wire_same(%(O)s, %(N)s) } else { r is Ok && tx1(%(O)s, %(N)s, %(fbase)s) }), // [C01,C02,C07,C10]
            state_same(%(O)s, %(N)s), // [C07]
""" % dict(O=O, N=N, ERR=ERR, flog=flog, fbase=fbase, LX=LX, acc=matches(flog))
    m["set_log_fd"] = ack_contract(ERR, F(7, fds="seq![fd as int]"))
    m["set_vring_num"] = ack_contract("(%s || %s)" % (ERR, QREJ), F(8, "8", vs("queue_index as u32", "num as u32")))
    m["set_vring_addr"] = ack_contract(
        "(%s || %s || config_data.flags & !1u32 != 0)" % (ERR, QREJ),
        F(9, "40", "VhostUserVringAddr { index: queue_index as u32, flags: config_data.flags, descriptor: config_data.desc_table_addr, "
                   "used: config_data.used_ring_addr, available: config_data.avail_ring_addr, "
                   "log: (match config_data.log_addr { Some(a) => a, None => 0 }) }.bytes()"))
    m["set_vring_base"] = ack_contract("(%s || %s)" % (ERR, QREJ), F(10, "8", vs("queue_index as u32", "base as u32")))
    f = F(11, "8", vs("queue_index as u32", "0"))
    m["get_vring_base"] = reply_contract("(%s || %s)" % (ERR, QREJ), f, "%s && %s.fds.len() == 0" % (matches(f), LX),
                                         "r->Ok_0 == VhostUserVringState::decode(%s.body).num" % LX)
    for name, code in (("set_vring_call", 13), ("set_vring_kick", 12), ("set_vring_err", 14)):
        m[name] = ack_contract("(%s || %s)" % (ERR, QREJ), F(code, "8", u64b("queue_index as u64"), EMPTY8, "seq![fd.fd as int]"))
    # ---- impl VhostUserFrontend for Frontend
    gate_offered = "(%s.virtio_features & 0x4000_0000 == 0)" % O
    f = F(15)
    m["get_protocol_features"] = reply_contract(
        "(%s || %s)" % (ERR, gate_offered), f, "%s && %s.fds.len() == 0" % (matches(f), LX),
        "r->Ok_0.bits == VhostUserU64::decode(%s.body).value & PF_ALL && %s.protocol_features == VhostUserU64::decode(%s.body).value" % (LX, N, LX),
        state=STATE_EXCEPT("protocol_features") + " && (r is Err ==> %s.protocol_features == %s.protocol_features)" % (N, O))
    f = F(16, "8", u64b("features.bits"))
    m["set_protocol_features"] = ack_contract(
        "(%s || %s)" % (ERR, gate_offered), f, acked="features.bits",
        state=STATE_EXCEPT("acked_protocol_features", "protocol_features_ready") +
        " && (%s.acked_protocol_features == %s.acked_protocol_features || %s.acked_protocol_features == features.bits)"
        " && (r is Ok ==> %s.acked_protocol_features == features.bits)" % (N, O, N, N))
    f = F(17)
    m["get_queue_num"] = reply_contract(
        "(%s || %s)" % (ERR, gate_pf(0)), f,
        "%s && %s.fds.len() == 0 && VhostUserU64::decode(%s.body).value <= 0x8000" % (matches(f), LX, LX),
        "r->Ok_0 == VhostUserU64::decode(%s.body).value && %s.max_queue_num == r->Ok_0" % (LX, N),
        state=STATE_EXCEPT("max_queue_num") + " && (r is Err ==> %s.max_queue_num == %s.max_queue_num)" % (N, O))
    m["reset_device"] = ack_contract("(%s || %s)" % (ERR, gate_pf(13)), F(34))
    m["set_vring_enable"] = ack_contract(
        "(%s || %s.acked_virtio_features & 0x4000_0000 == 0 || %s)" % (ERR, O, QREJ),
        F(18, "8", vs("queue_index as u32", "(if enable { 1u32 } else { 0u32 })")))
    cfg = "VhostUserConfig { offset: offset, size: size, flags: flags.bits }"
    f = F(24, "12 + buf@.len()", cfg + ".bytes()", "buf@")
    m["get_config"] = reply_contract(
        "(%s || !config_valid(%s) || %s || 12 + buf@.len() > 4096 || buf@.len() != size)" % (ERR, cfg, gate_pf(9)), f,
        "%s && %s.fds.len() == 0 && config_valid(VhostUserConfig::decode(%s.body)) && %s.size == 12 + %s.payload.len() "
        "&& %s.payload.len() == buf@.len() && VhostUserConfig::decode(%s.body).size == size && VhostUserConfig::decode(%s.body).offset == offset"
        % (matches(f), LX, LX, LX, LX, LX, LX, LX),
        "r->Ok_0.0 == VhostUserConfig::decode(%s.body) && r->Ok_0.1@ == %s.payload && %s.demand == %s" % (LX, LX, LX, GET_CONFIG_DEMAND), pre=", buf@.len() <= isize::MAX")
    cfg2 = "VhostUserConfig { offset: offset, size: buf@.len() as u32, flags: flags.bits }"
    m["set_config"] = ack_contract(
        "(%s || buf@.len() > 4096 || !config_valid(%s) || %s || 12 + buf@.len() > 4096)" % (ERR, cfg2, gate_pf(9)),
        F(25, "12 + buf@.len()", cfg2 + ".bytes()", "buf@"), pre=", buf@.len() <= isize::MAX")
    m["set_backend_request_fd"] = ack_contract("(%s || %s)" % (ERR, gate_pf(5)), F(21, fds="seq![fd.fd as int]"))
    f = F(41, "16", "uuid.bytes()")
    m["get_shared_object"] = reply_contract(
        "(%s || %s || !shared_valid(*uuid))" % (ERR, gate_pf(18)), f, "%s && %s.fds.len() == 1" % (matches(f), LX),
        "r->Ok_0.id@ == %s.fds[0]" % LX)
    f = F(31, "24", "inflight.bytes()")
    m["get_inflight_fd"] = reply_contract(
        "(%s || %s)" % (ERR, gate_pf(12)), f,
        "%s && %s.fds.len() == 1 && inflight_valid(VhostUserInflight::decode(%s.body))" % (matches(f), LX, LX),
        "r->Ok_0.0 == VhostUserInflight::decode(%s.body) && r->Ok_0.1.id@ == %s.fds[0]" % (LX, LX))
    m["set_inflight_fd"] = ack_contract(
        "(%s || %s || inflight.mmap_size == 0 || inflight.num_queues == 0 || inflight.queue_size == 0 || fd < 0)" % (ERR, gate_pf(12)),
        F(32, "24", "inflight.bytes()", EMPTY8, "seq![fd as int]"))
    f = F(36)
    m["get_max_mem_slots"] = reply_contract("(%s || %s)" % (ERR, gate_pf(15)), f, "%s && %s.fds.len() == 0" % (matches(f), LX),
                                            "r->Ok_0 == VhostUserU64::decode(%s.body).value" % LX)
    single = "VhostUserSingleMemoryRegion { padding: 0, region: to_region_spec(*region) }.bytes()"
    m["add_mem_region"] = ack_contract("(%s || %s || region.memory_size == 0 || region.mmap_handle < 0)" % (ERR, gate_pf(15)),
                                       F(37, "40", single, EMPTY8, "seq![region.mmap_handle as int]"))
    m["remove_mem_region"] = ack_contract("(%s || %s || region.memory_size == 0)" % (ERR, gate_pf(15)), F(38, "40", single))
    f = F(44)
    m["get_shmem_config"] = reply_contract("(%s || %s)" % (ERR, gate_pf(21)), f, "%s && %s.fds.len() == 0" % (matches(f), LX),
                                           "r->Ok_0 == VhostUserShMemConfig::decode(%s.body)" % LX)
    f = F(42, "8", "VhostUserTransferDeviceState { direction: direction.code(), phase: phase.code() }.bytes()", EMPTY8, "seq![fd.fd as int]")
    v = "VhostUserU64::decode(%s.body).value" % LX
    m["set_device_state_fd"] = reply_contract(
        "(%s || %s)" % (ERR, gate_pf(19)), f,
        "%s && ((%s == 0x100 && %s.fds.len() == 0) || (%s == 0 && %s.fds.len() == 1))" % (matches(f), v, LX, v, LX),
        "(if %s == 0x100 { r->Ok_0 is None } else { r->Ok_0 is Some && r->Ok_0->Some_0.id@ == %s.fds[0] })" % (v, LX))
    f = F(43)
    m["check_device_state"] = reply_contract("(%s || %s)" % (ERR, gate_pf(19)), f,
                                             "%s && %s.fds.len() == 0 && %s == 0" % (matches(f), LX, v), "true")
    return m


def helpers():
    h = []
    same = "state_same(*old(self), *final(self))"
    h.append(("check_state", dict(contract="\n        ensures (r is Ok) == (self.error is None)")))
    h.append(("check_feature", dict(contract="\n        ensures (r is Ok) == (self.virtio_features & feat.bits != 0) // [C07]")))
    h.append(("check_proto_feature", dict(contract="\n        ensures (r is Ok) == (self.acked_protocol_features & feat.bits != 0) // [C07]")))
    h.append(("new_request_header", dict(
        proof_prologue="\n        proof { lemma_req_flags(self.hdr_flags.bits); }",
        contract="""
        ensures r.request == request.code(), r.flags == (self.hdr_flags.bits & 0xc) | 1, r.size == size, // [C01] version 1, only REPLY/NEED_REPLY bits
            r.flags & 4 == self.hdr_flags.bits & 4, r.flags & 8 == self.hdr_flags.bits & 8, r.flags & 3 == 1""")))
    h.append(("send_request_header", dict(contract="""
        requires !failed(*old(self))
        ensures %(same)s,
            self_err(*old(self)) ==> r is Err && wire_same(*old(self), *final(self)) && !failed(*final(self)),
            r is Ok ==> tx1(*old(self), *final(self), fr(*old(self), code.code(), 0, %(E)s, %(E)s, opt_rawfds(fds)))
                && r->Ok_0 == hdr_of(fr(*old(self), code.code(), 0, %(E)s, %(E)s, opt_rawfds(fds))), // [C01,C02]
            r is Err && !self_err(*old(self)) ==> wire_same(*old(self), *final(self)) && failed(*final(self)),
            r is Ok ==> r->Ok_0.flags & 4 == old(self).hdr_flags.bits & 4 && !self_err(*old(self)),
""" % dict(same=same, E=EMPTY8))))
    h.append(("send_request_with_body", dict(contract="""
        requires !failed(*old(self))
        ensures %(same)s,
            self_err(*old(self)) ==> r is Err && wire_same(*old(self), *final(self)) && !failed(*final(self)),
            r is Ok ==> tx1(*old(self), *final(self), fr(*old(self), code.code(), T::spec_size(), msg.bytes(), %(E)s, opt_rawfds(fds)))
                && r->Ok_0 == hdr_of(fr(*old(self), code.code(), T::spec_size(), msg.bytes(), %(E)s, opt_rawfds(fds))), // [C01,C02]
            r is Err && !self_err(*old(self)) ==> wire_same(*old(self), *final(self)) && failed(*final(self)),
            r is Ok ==> r->Ok_0.flags & 4 == old(self).hdr_flags.bits & 4 && !self_err(*old(self)),
""" % dict(same=same, E=EMPTY8))))
    h.append(("send_request_with_payload", dict(contract="""
        requires !failed(*old(self)), payload@.len() <= isize::MAX   // Rust guarantees a slice is at most isize::MAX bytes
        ensures %(same)s,
            (self_err(*old(self)) || T::spec_size() + payload@.len() > 4096 || (fds is Some && fds->Some_0@.len() > 32))
                ==> r is Err && wire_same(*old(self), *final(self)) && !failed(*final(self)), // [C02]
            r is Ok ==> tx1(*old(self), *final(self), fr(*old(self), code.code(), T::spec_size() + payload@.len(), msg.bytes(), payload@, opt_rawfds(fds)))
                && r->Ok_0 == hdr_of(fr(*old(self), code.code(), T::spec_size() + payload@.len(), msg.bytes(), payload@, opt_rawfds(fds))), // [C01,C02]
            r is Err && !(self_err(*old(self)) || T::spec_size() + payload@.len() > 4096 || (fds is Some && fds->Some_0@.len() > 32))
                ==> wire_same(*old(self), *final(self)) && failed(*final(self)),
            r is Ok ==> r->Ok_0.flags & 4 == old(self).hdr_flags.bits & 4 && !self_err(*old(self)),
""" % dict(same=same))))
    h.append(("send_fd_for_vring", dict(contract="""
        requires !failed(*old(self))
        ensures %(same)s,
            (self_err(*old(self)) || queue_index as u64 >= old(self).max_queue_num) ==> r is Err && wire_same(*old(self), *final(self)) && !failed(*final(self)), // [C02]
            r is Ok ==> tx1(*old(self), *final(self), fr(*old(self), code.code(), 8, VhostUserU64 { value: queue_index as u64 }.bytes(), %(E)s, seq![fd as int]))
                && r->Ok_0 == hdr_of(fr(*old(self), code.code(), 8, VhostUserU64 { value: queue_index as u64 }.bytes(), %(E)s, seq![fd as int])), // [C01,C02]
            r is Err && !(self_err(*old(self)) || queue_index as u64 >= old(self).max_queue_num) ==> wire_same(*old(self), *final(self)) && failed(*final(self)),
            r is Ok ==> r->Ok_0.flags & 4 == old(self).hdr_flags.bits & 4 && !self_err(*old(self)),
""" % dict(same=same, E=EMPTY8))))
    RX_COMMON = """
        requires !failed(*old(self)), hdr.flags & 4 == 0, !self_err(*old(self))
        ensures %(same)s,
            r is Ok ==> rx1(*old(self), *final(self)),
            r is Err ==> (wire_same(*old(self), *final(self)) && failed(*final(self))) || (rx1(*old(self), *final(self))),
""" % dict(same=same)
    LXS = "last_rx(*final(self))"
    h.append(("recv_reply", dict(
        sig_rw=[("R5", r'T:\s*ByteValued\s*\+\s*Sized\s*\+\s*VhostUserMsgValidator\s*\+\s*Default', 'T: VhostUserMsgValidator')],
        contract=RX_COMMON + """
            rx1(*old(self), *final(self)) ==> (r is Ok) == (reply_matches(%(LX)s, *hdr) && %(LX)s.fds.len() == 0 && T::decode(%(LX)s.body).valid_spec()), // [C06,C03]
            r is Ok ==> r->Ok_0 == T::decode(%(LX)s.body), // [C03,C06] never a fabricated value
""" % dict(LX=LXS))))
    h.append(("recv_reply_with_optional_files", dict(
        sig_rw=[("R5", r'T:\s*ByteValued\s*\+\s*Sized\s*\+\s*VhostUserMsgValidator\s*\+\s*Default', 'T: VhostUserMsgValidator')],
        contract=RX_COMMON + """
            rx1(*old(self), *final(self)) ==> (r is Ok) == (reply_matches(%(LX)s, *hdr) && T::decode(%(LX)s.body).valid_spec()), // [C06,C03]
            r is Ok ==> r->Ok_0.0 == T::decode(%(LX)s.body) && opt_file_ids(r->Ok_0.1) == %(LX)s.fds
                && (r->Ok_0.1 is Some ==> r->Ok_0.1->Some_0@.len() >= 1), // [C03,C06,C09]
""" % dict(LX=LXS))))
    h.append(("recv_reply_with_files", dict(
        sig_rw=[("R5", r'T:\s*ByteValued\s*\+\s*Sized\s*\+\s*VhostUserMsgValidator\s*\+\s*Default', 'T: VhostUserMsgValidator')],
        contract=RX_COMMON + """
            rx1(*old(self), *final(self)) ==> (r is Ok) == (reply_matches(%(LX)s, *hdr) && T::decode(%(LX)s.body).valid_spec() && %(LX)s.fds.len() >= 1), // [C06,C03]
            r is Ok ==> r->Ok_0.0 == T::decode(%(LX)s.body) && opt_file_ids(r->Ok_0.1) == %(LX)s.fds && r->Ok_0.1 is Some, // [C03,C06,C09]
""" % dict(LX=LXS))))
    h.append(("recv_reply_with_payload", dict(
        sig_rw=[("R5", r'T:\s*ByteValued\s*\+\s*Sized\s*\+\s*VhostUserMsgValidator\s*\+\s*Default', 'T: VhostUserMsgValidator')],
        body_rw=[("R15", r'vec!\[0;\s*hdr\.get_size\(\)\s*as\s*usize\s*-\s*size_of_::<T>\(\)\]', 'vec_zeroed(hdr.get_size() as usize - size_of_::<T>())')],
        contract="""
        requires !failed(*old(self)), hdr.flags & 4 == 0, !self_err(*old(self)), T::spec_size() < hdr.size <= 4096   // the request carried a payload (callers establish this BEFORE sending)
        ensures %(same)s,
            r is Ok ==> rx1(*old(self), *final(self)),
            r is Err ==> (wire_same(*old(self), *final(self)) && failed(*final(self))) || (rx1(*old(self), *final(self))),
            rx1(*old(self), *final(self)) ==> (r is Ok) == (reply_matches(%(LX)s, *hdr) && %(LX)s.fds.len() == 0 && T::decode(%(LX)s.body).valid_spec()
                && %(LX)s.size == T::spec_size() + %(LX)s.payload.len() && %(LX)s.payload.len() == hdr.size - T::spec_size()), // [C06,C03]
            r is Ok ==> r->Ok_0.0 == T::decode(%(LX)s.body) && r->Ok_0.1@ == %(LX)s.payload && r->Ok_0.2 is None, // [C03,C06]
            rx1(*old(self), *final(self)) ==> %(LX)s.demand == 12 + T::spec_size() + (hdr.size - T::spec_size()), // [C03] the receive waits for the whole declared reply
""" % dict(same=same, LX=LXS))))
    h.append(("wait_for_ack", dict(contract="""
        requires !failed(*old(self)), hdr.flags & 4 == 0, !self_err(*old(self))
        ensures %(same)s,
            !(old(self).acked_protocol_features & 8 != 0 && hdr.flags & 8 != 0) ==> r is Ok && wire_same(*old(self), *final(self)) && !failed(*final(self)), // [C03,C18]
            (old(self).acked_protocol_features & 8 != 0 && hdr.flags & 8 != 0) ==>
                ((wire_same(*old(self), *final(self)) && failed(*final(self)) && r is Err)
                 || (rx1(*old(self), *final(self)) && (r is Ok) == (reply_matches(%(LX)s, *hdr) && %(LX)s.fds.len() == 0 && VhostUserU64::decode(%(LX)s.body).value == 0))), // [C03,C06,C10] whenever an acknowledgement is due exactly one is consumed (an ack left unread would be taken by the next caller)
""" % dict(same=same, LX=LXS))))
    return h


SIG_SELF = [("R8", r'&self\b', '&mut self'), ("R16", r'&dyn AsRawFd', '&EventFd')]
BODY_RW = [
    ("R6", r'\.map_err\(\|e\|\s*e\.into\(\)\)', '.map_err(|e: VhostUserError| -> (o: Error) ensures o == Error::VhostUserProtocol(e) { e.into() })'),
    ("R12", r'Some\(&\[([\w\.\(\)]+)\]\)', r'fd1(\1)'),
    ("R12", r'let (\w*fds\w*) = \[([\w\.\(\)]+)\];', r'let \1 = fd1arr(\2);'),
    ("R12", r'Some\(&(\w*fds\w*)\)', r'fd1(\1)'),
    ("R7", r'let \(_, payload, _\) = unsafe \{ ctx\.regions\.align_to::<u8>\(\) \};', 'let payload = regions_as_bytes(&ctx.regions);'),
    ("R12", r'Some\(ctx\.fds\.as_slice\(\)\)', 'some_slice(&ctx.fds)'),
    ("R6", r'let flag = enable\.into\(\);', 'let flag = bool_into_u32(enable);'),
    ("R6", r'\bnum\.into\(\)', 'u16_into_u32(num)'),
    ("R6", r'\bbase\.into\(\)', 'u16_into_u32(base)'),
]


def build():
    u = Unit("frontend")
    msg = Source(MSG)
    fe = Source(FE)
    mod = Source(MOD)
    bk = Source(BK)
    u.raw("use vstd::prelude::*;\nverus! {\n")
    u.env("common.rs")
    ub.gen_enums(u, msg)
    ub.gen_flag_consts_check(u, msg)
    ub.gen_bodies(u, msg, extra_ctors=True)
    u.extracted_fn(mod, "take_single_file", contract="""
        ensures match files { Some(v) => if v@.len() == 1 { r is Some && r->Some_0.id@ == v@[0].id@ } else { r is None }, None => r is None } // [C09,C03,C06] exactly one descriptor, or none is taken""")
    u.raw("pub mod fe {\nuse super::*;\nuse vstd::prelude::*;\n")
    u.env("frontend.rs")
    u.env("frontend_specs.rs")
    u.env("frontend_specs2.rs")
    # backend.rs conversions
    span = bk.impl_span(r'^impl VhostUserMemoryRegionInfo$')
    u.raw("impl VhostUserMemoryRegionInfo {")
    u.extracted_fn(bk, "to_region", within=span, contract="        ensures r == to_region_spec(*self) // [C02,C01]",
                   body_rw=[("R2", r'\breturn\s+(VhostUserMemoryRegion::new\([^;]*\));', r'\1')])
    u.extracted_fn(bk, "to_single_region", within=span,
                   contract="        ensures r == (VhostUserSingleMemoryRegion { padding: 0, region: to_region_spec(*self) }) // [C02,C01]")
    u.raw("}")
    # error_code
    u.extracted_fn(fe, "error_code", contract="        ensures r == Err::<T, Error>(Error::VhostUserProtocol(err))")
    # VhostUserMemoryContext
    u.raw("pub struct VhostUserMemoryContext { pub regions: VhostUserMemoryPayload, pub fds: Vec<RawFd> }")
    span = fe.impl_span(r'^impl VhostUserMemoryContext$')
    u.raw("impl VhostUserMemoryContext {")
    u.extracted_fn(fe, "new", within=span, contract="        ensures r.regions@.len() == 0, r.fds@.len() == 0")
    u.extracted_fn(fe, "append", within=span, contract="""
        ensures final(self).regions@ == old(self).regions@.push(*region), final(self).fds@ == old(self).fds@.push(fd)""")
    u.raw("}")
    # FrontendInternal helpers
    span = fe.impl_span(r'^impl FrontendInternal$')
    u.raw("impl FrontendInternal {")
    for name, kw in helpers():
        u.extracted_fn(fe, name, within=span, contract=kw.get("contract", ""), sig_rw=kw.get("sig_rw"),
                       body_rw=(kw.get("body_rw") or []) + BODY_RW, proof_prologue=kw.get("proof_prologue", ""))
    u.raw("}")
    # the frontend's initial state (third session): nothing read, nothing acknowledged, protocol features not ready, no failure, the
    # caller's queue limit and endpoint
    u.raw("impl Frontend {")
    u.extracted_fn(fe, "new", within=fe.impl_span(r'^impl Frontend$'),
                   sig_rw=[("R3", r'Endpoint<VhostUserMsgHeader<FrontendReq>>', 'Endpoint<FrontendReq>'), ("R3", r'-> Self\b', '-> Frontend')],
                   body_rw=[("R8", r'node:\s*Arc::new\(Mutex::new\((FrontendInternal \{.*?\n\s*\})\)\),?', r'inner: \1, acq: Ghost(0nat),'),
                            ("R10", r'VhostUserHeaderFlag::empty\(\)', 'VhostUserHeaderFlag { bits: 0 }')],
                   contract="""
        ensures r.inner.main_sock == ep, r.inner.max_queue_num == max_queue_num, r.inner.virtio_features == 0, r.inner.acked_virtio_features == 0,
            r.inner.protocol_features == 0, r.inner.acked_protocol_features == 0, !r.inner.protocol_features_ready, r.inner.error is None,
            r.inner.hdr_flags.bits == 0, // [C07:frontend-starts-closed,C02] nothing is negotiated on a new frontend: every feature-gated call is refused until the handshake has run; no header flag is set""")
    u.raw("}")
    # API methods
    ms = methods()
    u.raw("impl Frontend {")
    seen = set()
    for impl_re in (r'^impl VhostBackend for Frontend$', r'^impl VhostUserFrontend for Frontend$'):
        span = fe.impl_span(impl_re)
        inner = fe.src[span[0]:span[1]]
        names = []
        for mm in re.finditer(r'\bfn\s+(\w+)', inner):
            if fe.mask[span[0] + mm.start()]:
                # top-level methods only: those whose `fn` is at brace depth 0 of the impl body
                depth = 0
                for i in range(span[0], span[0] + mm.start()):
                    if fe.mask[i]:
                        if fe.src[i] == '{':
                            depth += 1
                        elif fe.src[i] == '}':
                            depth -= 1
                if depth == 0:
                    names.append(mm.group(1))
        for name in names:
            if name.startswith("postcopy_"):
                u.rw._count("R2", 1)
                continue
            if name not in ms:
                raise ExtractError("frontend API method %s has no registered contract (new/renamed method)" % name)
            seen.add(name)
            loops = None
            hints = None
            if name == "set_mem_table":
                loops = [dict(kind="for", nth=0, iter="it", text="""            invariant
                ctx.regions@.len() == it.index@, ctx.fds@.len() == it.index@,
                forall|j: int| 0 <= j < it.index@ ==> ctx.regions@[j] == to_region_spec(#[trigger] regions@[j]) && ctx.fds@[j] == regions@[j].mmap_handle,
                forall|j: int| 0 <= j < it.index@ ==> !region_bad(#[trigger] regions@[j]),
                *self == *old(self), 1 <= regions@.len() <= 32, !failed(self.inner), hf_ok(self.inner)""")]
                hints = [(r'if region\.memory_size == 0', "assert(*region == regions@[it.index@ as int]);"),
                         (r'let mut node = self\.node\(\);',
                          "assert(ctx.regions@ =~= mt_regions(regions@)); assert(fds_int(ctx.fds@) =~= mt_fds(regions@));")]
            u.extracted_fn(fe, name, within=span, contract=ms[name], sig_rw=SIG_SELF, body_rw=BODY_RW, loops=loops, hints=hints)
    missing = set(ms) - seen
    if missing:
        raise ExtractError("frontend API methods missing: %s" % sorted(missing))
    # set_hdr_flags (third session): the flags applied to all following requests are exactly the caller's; one acquisition; nothing else changes
    u.extracted_fn(fe, "set_hdr_flags", within=fe.impl_span(r'^impl Frontend$'), sig_rw=SIG_SELF, body_rw=BODY_RW, contract="""
        ensures final(self).acq@ == old(self).acq@ + 1, final(self).inner.hdr_flags == flags, final(self).inner.main_sock == old(self).inner.main_sock,
            final(self).inner.virtio_features == old(self).inner.virtio_features, final(self).inner.acked_virtio_features == old(self).inner.acked_virtio_features,
            final(self).inner.protocol_features == old(self).inner.protocol_features, final(self).inner.acked_protocol_features == old(self).inner.acked_protocol_features,
            final(self).inner.protocol_features_ready == old(self).inner.protocol_features_ready, final(self).inner.max_queue_num == old(self).inner.max_queue_num,
            final(self).inner.error == old(self).inner.error, // [C10:hdr-flags-setter,C03,C07] the header flags of later requests are the caller's; no negotiated state, no socket traffic""")
    u.raw("}")
    u.raw("} // mod fe")
    u.raw("fn main() {}\n} // verus!")
    return u
