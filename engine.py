"""engine — property registry, verdict rules, evidence, known findings, replay."""
import os, re, sys, json, time, glob, hashlib, importlib, shutil, subprocess, tempfile

VERIF = os.path.dirname(os.path.abspath(__file__))
import kx, vx  # noqa: E402

# evidence/ is only written by runs against /repo itself; development runs against a scratch worktree (VERIF_REPO) write elsewhere
EVID = os.path.join(VERIF, "evidence") if os.environ.get("VERIF_REPO", "/repo") == "/repo" else os.path.join(VERIF, "scratch", "evidence_dev")
REPLAY = os.path.join(VERIF, "replay")
SCRATCH = os.path.join(VERIF, "scratch")
KNOWN = os.path.join(VERIF, "known_findings.txt")
BASELINE = os.path.join(VERIF, "baseline", "obligations.json")

ALL_PROPS = ["C%02d" % i for i in range(1, 21)]

# Verus units: name -> (python module, properties the unit's unlabelled obligations are charged to)
VERUS_UNITS = {
    "backend": ("units_backend", ["C02", "C03", "C04", "C05", "C07", "C09", "C20", "C01", "C13"]),
    "frontend": ("units_frontend", ["C01", "C02", "C03", "C06", "C07", "C10"]),
    "proxy": ("units_proxy", ["C18", "C06", "C07", "C10", "C09", "C01"]),
    "misc": ("units_misc", ["C13", "C14", "C15", "C05"]),
    "adapters": ("units_adapters", ["C02", "C14", "C11", "C18", "C03", "C04"]),
    "gpu": ("units_gpu", ["C01", "C06", "C10"]),
    "daemon": ("units_daemon", ["C16"]),
    "compat": ("units_compat", ["C03"]),
    "chunk": ("units_chunk", ["C08"]),
    "rank": ("units_rank", ["C17"]),
    "kern": ("units_kern", ["C19"]),
    "own": ("units_own", ["C09"]),
    "evloop": ("units_evloop", ["C11"]),
    "exitev": ("units_exitev", ["C16", "C17"]),
}
# units in which a lock guard is encoded as a `&mut` borrow of its owner (rule R8)
R8_UNITS = ("frontend", "proxy", "gpu")
# which units to run for a property
VERUS_FOR = {}
for _u, (_m, _ps) in VERUS_UNITS.items():
    for _p in _ps:
        VERUS_FOR.setdefault(_p, []).append(_u)

# units that carry LABELLED clauses of further properties (only those clauses are charged to them; unlabelled failures of the
# unit stay with its default properties)
VERUS_ALSO = {"C09": ["chunk"], "C01": ["chunk"], "C14": ["misc"], "C16": ["evloop", "chunk"], "C17": ["evloop"],
              # every frame written / read goes through the partial-I/O loops of unit chunk (the units of these properties stub
              # send_message* / recv_* by contracts whose proof ends there): see CHARGE_RULES
              "C02": ["chunk"], "C03": ["chunk"], "C04": ["chunk"], "C05": ["chunk"], "C06": ["chunk"], "C18": ["chunk"],
              # [..,C11] clause of VringEpollHandler::new: the worker dispatches on ITS ring slice
              "C11": ["rank", "exitev"]}
for _p, _us in VERUS_ALSO.items():
    for _u in _us:
        if _u not in VERUS_FOR.setdefault(_p, []):
            VERUS_FOR[_p].append(_u)

# (unit, function regex, message regex, properties): an unlabelled failure of this kind is ALSO charged to these properties
CHARGE_RULES = [
    # the body-read loop must end at end of stream: otherwise the daemon thread spins after the peer closed inside a body (C16: wait()
    # never returns, the daemon cannot accept a new connection)
    ("chunk", r'^recv_data$', r'decreases', ["C16"]),
    ("chunk", r'^recv_into_iovec_all$', r'decreases', ["C16"]),
    # a broken byte-transfer loop breaks every property that speaks about what reaches the peer / the handler
    ("chunk", r'^(send_iovec_all|get_sub_iovs_offset)$', r'.', ["C01", "C02", "C04", "C18"]),
    ("chunk", r'^(recv_into_iovec_all|recv_into_iovec_real|get_sub_iovs_offset)$', r'.', ["C02", "C03", "C05", "C06", "C18"]),
    # recv_data reads request BODIES in the two request servers (not replies): C04 prologue, C05 backend server, C18 frontend-side server
    ("chunk", r'^recv_data$', r'.', ["C02", "C04", "C05", "C18"]),
    # (un)registration of a ring's kick descriptor goes to the owning worker with the ring's rank: C11's registration invariant
    # (Kani, one worker) relies on it for every other configuration
    ("rank", r'^update_vring_registration$', r'.', ["C11"]),
]

# Kani harnesses that serve further properties besides the one in their name
KANI_ALSO = {
    "c20_memory_region_valid": ["C05"], "c20_single_memory_region_valid": ["C05"], "c20_vring_addr_valid": ["C05"],
    "c20_config_valid": ["C05"], "c20_memory_valid": ["C05"],
    "c06_is_reply_for_frontend": ["C03"], "c06_is_reply_for_backend": ["C18"],
    "c01_hdr_new_frontend": ["C04"], "c01_hdr_accessors": ["C04", "C06"],
    "c04_update_reply_ack_flag": ["C03"],
    # header validity (version 1, no reserved bits, known code, size <= 0x1000) is the acceptance side of the wire format
    "c20_hdr_valid_frontend": ["C01", "C05", "C03", "C06"], "c20_hdr_valid_backend": ["C01", "C06", "C18"],
    "c11_set_vring_call_step": ["C14"],
    # the Verus units stub send_message / send_message_with_payload / send_header with `proved-by:` these harnesses: every property
    # whose proof goes through a written frame depends on them (fast: a few seconds each)
    "c08_send_message_frame": ["C01", "C02", "C03", "C04", "C18"], "c08_send_header_frame": ["C01", "C02", "C04"],
    "c08_send_message_with_payload_frame": ["C01", "C02", "C03", "C04"], "c08_send_message_with_payload_limits": ["C01", "C02", "C03", "C04"],
    # ... and the receive stubs (recv_header / recv_body / recv_payload_into_buf) with `proved-by:` these
    "c08_recv_header_classification": ["C04", "C05", "C18"], "c08_recv_body_classification": ["C03", "C06", "C18"],
    "c08_recv_payload_into_buf_classification": ["C03", "C06"],
}

STANDING_ASSUMPTIONS = [
    "A-RUSTC: rustc/LLVM, Kani's MIR->goto translation, CBMC, Verus and Z3 are sound",
    "A-AFFINE: Rust ownership (a value is dropped exactly once unless forgotten)",
    "A-ARITH: Kani machine arithmetic exact; Verus usize is 64-bit",
    "A-OS: sendmsg/recvmsg deliver bytes in order, SCM_RIGHTS passes the same open file, close closes, mmap shares pages",
    "A-FEATURES: default cargo feature set; code under cfg(feature = xen|postcopy) is not verified",
    "A-SPEC: the oracle tables transcribe the vhost-user / vhost-user-gpu specifications and <linux/vhost.h> correctly",
]


# --------------------------------------------------------------------------------------------- kani registry
def kani_harnesses():
    """scan kani/<group dir>/*.rs -> {harness: dict(group, file, props, bounded)}"""
    out = {}
    for grp, g in kx.GROUPS.items():
        for src, hfile in g["inject"].items():
            p = os.path.join(VERIF, "kani", hfile)
            if not os.path.exists(p):
                continue
            txt = open(p).read()
            names = re.findall(r'\bfn\s+((?:c\d\d_)+\w+)\s*\(\s*\)', txt) + re.findall(r'(?:extract_harness|index_range|rank_harness|vhost_memory_layout|two_ring_harness)!\(\s*((?:c\d\d_)+\w+)', txt)
            for name in names:
                props = ["C" + x for x in re.findall(r'c(\d\d)_', re.match(r'((?:c\d\d_)+)', name).group(1))]
                props += KANI_ALSO.get(name, [])
                out[name] = dict(group=grp, file=hfile, src=src, props=sorted(set(props)),
                                 bounded=name.endswith("_bounded") or "_bounded_" in name,
                                 thorough_only=name.endswith("_thorough") or "_thorough_" in name)
    return out


# --------------------------------------------------------------------------------------------- known findings
def load_known():
    """lines:  known: property=Cxx key=<regex> :: text      |   fixed: property=Cxx <commit> <text>"""
    known, fixed = [], []
    if os.path.exists(KNOWN):
        for ln in open(KNOWN):
            ln = ln.strip()
            if ln.startswith("known:"):
                m = re.match(r'known:\s*property=(\w+)\s+key=(\S+)\s*::\s*(.*)', ln)
                if m:
                    known.append(dict(prop=m.group(1), key=re.compile(m.group(2)), text=m.group(3)))
            elif ln.startswith("fixed:"):
                fixed.append(ln)
    return known, fixed


# --------------------------------------------------------------------------------------------- verus
def build_unit(name):
    mod = importlib.import_module(VERUS_UNITS[name][0])
    importlib.reload(mod)
    return mod.build()


def count_labels(text, prop):
    n = 0
    for ln in text.splitlines():
        m = vx._LABEL.search(ln)
        if m and prop in [x.split(":")[0] for x in re.split(r'[,\s]+', m.group(1))]:
            n += 1
    return n


def extracted_marker(lines, line_no):
    for L in range(min(line_no, len(lines)) - 1, -1, -1):
        if lines[L].startswith("//@end-extracted"):
            return None
        if lines[L].startswith("//@begin-extracted"):
            return lines[L][len("//@begin-extracted"):].strip()
    return None


def vacuity_twin(text, only=None):
    """adds `false` as the first postcondition of the `only`-th extracted function (one at a time: a callee that promises
    `false` would make its callers verify vacuously)"""
    out = []
    lines = text.splitlines()
    i = 0
    n = 0
    while i < len(lines):
        ln = lines[i]
        out.append(ln)
        if ln.startswith("//@begin-extracted"):
            # collect header+contract up to the body-open line (first line starting with `{`)
            j = i + 1
            blk = []
            while j < len(lines) and not re.match(r'^\s*\{', lines[j]) and not lines[j].startswith("//@end-extracted"):
                blk.append(lines[j]); j += 1
            if j < len(lines) and re.match(r'^\s*\{', lines[j]) and any(re.search(r'\bfn\s+\w+', b) for b in blk):
                if only is not None and n != only:
                    out.extend(blk); n += 1; i = j
                    continue
                joined = "\n".join(blk)
                if re.search(r'(?m)^\s*ensures\b', joined):
                    joined = re.sub(r'(?m)^(\s*)ensures\b', r'\1ensures false, /*VACUITY*/', joined, count=1)
                else:
                    joined += "\n        ensures false /*VACUITY*/"
                out.extend(joined.split("\n"))
                n += 1
                i = j
                continue
        i += 1
    return "\n".join(out), n


def marked_functions(twin):
    fns = []
    lines = twin.splitlines()
    for i, ln in enumerate(lines):
        if "/*VACUITY*/" in ln:
            for L in range(i, -1, -1):
                m = re.search(r'\bfn\s+(\w+)', lines[L])
                if m:
                    fns.append(m.group(1)); break
    return fns


def run_verus_unit(name, prop, tier, keep=False):
    """returns dict(status ok|fail|undecided, obligations, discharged, failures[], info...)"""
    res = dict(unit=name, status="ok", obligations=0, discharged=0, failures=[], undecided=None,
               functions=[], spans=[], rules={}, time_s=0.0, smt_s=0.0, cmd="", assumptions=[])
    try:
        u = build_unit(name)
    except vx.ExtractError as e:
        res["status"] = "undecided"
        res["undecided"] = "extraction: %s" % e
        # scan-only rebuild: a syntactic obligation of this property that FAILS is still a violation
        try:
            vx.TOLERANT = True
            u2 = build_unit(name)
            for s in u2.scans:
                if prop in s[0] and not s[2] and not (len(s) > 4 and s[4] == "undecided"):
                    res["status"] = "fail"
                    res["obligations"] += 1
                    res["failures"].append(dict(engine="scan", unit=name, fn=s[1], label=",".join(s[0]), message="syntactic frame condition violated",
                                                clause=s[3], extracted=None, key="scan:%s:%s" % (name, s[1]), rendered=s[3], path=None))
        except Exception:
            pass
        finally:
            vx.TOLERANT = False
        return res
    os.makedirs(SCRATCH, exist_ok=True)
    path = os.path.join(SCRATCH, "%s_%s_%d.rs" % (name, prop, os.getpid()))
    text = u.text()
    open(path, "w").write(text)
    res["functions"] = list(u.functions)
    res["spans"] = u.spans
    res["rules"] = dict(u.rw.fired)
    if getattr(u, "no_verus", False):
        myscans = [s for s in u.scans if prop in s[0]]
        res["scans"] = [dict(name=s[1], ok=s[2], desc=s[3]) for s in myscans]
        res["obligations"] = len(myscans)
        res["cmd"] = "syntactic delegation scan over the extracted adapter impls (units_adapters.py)"
        bad = 0
        und = None
        for s in myscans:
            if not s[2] and len(s) > 4 and s[4] == "undecided":
                und = "anchor lost: %s" % s[3][:200]
                continue
            if not s[2]:
                bad += 1
                res["failures"].append(dict(engine="scan", unit=name, fn=s[1], label=",".join(s[0]), message="syntactic frame condition violated",
                                            clause=s[3], extracted=None, key="scan:%s:%s" % (name, s[1]), rendered=s[3], path=path))
        res["discharged"] = res["obligations"] - bad
        res["status"] = "fail" if bad else ("undecided" if und else "ok")
        res["undecided"] = und
        os.unlink(path)
        return res
    t0 = time.time()
    vr = vx.run_verus(path, rlimit=(30 if tier == "quick" else 60))
    res["time_s"] = time.time() - t0
    res["smt_s"] = vr.smt_ms / 1000.0
    res["cmd"] = "verus <generated %s.rs> --rlimit %d --multiple-errors 8" % (name, 30 if tier == "quick" else 60)
    lines = text.splitlines()
    # assumptions: every external_body / assume in the generated file, with its tag
    for i, ln in enumerate(lines):
        if ln.lstrip().startswith("//"):
            continue
        if "external_body" in ln or re.search(r'\bassume\(|\badmit\(', ln):
            tag = ""
            for k in range(i, max(i - 6, -1), -1):
                mm = re.search(r'//\s*(proved-by:.*|assumed:.*|R\d+ target.*|argument-contract.*)', lines[k])
                if mm:
                    tag = mm.group(1).strip()
                    break
            fn = re.search(r'fn\s+(\w+)', " ".join(lines[i:i + 3]))
            res["assumptions"].append("%s: %s [%s]" % (name, fn.group(1) if fn else ln.strip()[:40], tag or "UNTAGGED"))
    nlabel = count_labels(text, prop)
    nfun = len(u.functions)
    myscans = [s for s in u.scans if prop in s[0]]
    res["scans"] = [dict(name=s[1], ok=s[2], desc=s[3]) for s in myscans]
    res["obligations"] = nlabel + nfun + len(myscans)
    scan_bad = 0
    for s in myscans:
        if not s[2] and len(s) > 4 and s[4] == "undecided":
            res["status"] = "undecided"
            res["undecided"] = "anchor lost: %s" % s[3][:160]
            continue
        if not s[2]:
            scan_bad += 1
            res["failures"].append(dict(engine="scan", unit=name, fn=s[1], label=",".join(s[0]), message="syntactic frame condition violated",
                                        clause=s[3], extracted=None, key="scan:%s:%s" % (name, s[1]), rendered=s[3], path=path))
    if vr.undecided:
        if scan_bad:
            res["status"] = "fail"
            res["discharged"] = 0
            res["undecided_note"] = vr.undecided
            return res
        res["status"] = "undecided"
        res["undecided"] = vr.undecided
        res["raw"] = (vr.raw_stderr or "")[-4000:]
        if not keep:
            os.unlink(path)
        return res
    default_props = VERUS_UNITS[name][1]
    bad = scan_bad

    for d in vr.diags:
        labels = [x.split(":")[0] for x in re.split(r'[,\s]+', d["label"])] if d["label"] else None
        charged = (prop in labels) if labels else (prop in default_props)
        # unlabelled obligations (termination measures, safety conditions) that also decide another property
        for (cu, cfn, cmsg, cprops) in CHARGE_RULES:
            if cu == name and re.search(cfn, d["fn"] or "") and re.search(cmsg, d["message"]) and prop in cprops:
                charged = True
        marker = None
        for L in [d["line"]] + d.get("all_lines", []):
            marker = marker or extracted_marker(lines, L)
        key = "verus:%s:%s:%s:%s:%s" % (name, d["fn"], (marker or "env").replace(" ", "_"), (d["label"] or "-").replace(" ", ""), d["message"].replace(" ", "_"))
        if d.get("code") in vx.BORROW_CODES:
            if name in R8_UNITS and prop == "C10":
                bad += 1
                res["failures"].append(dict(engine="verus", unit=name, fn=d["fn"], label="C10", message="lock re-entry: " + d["message"],
                                            clause=d["text"], extracted=marker, rendered=d["rendered"], path=path,
                                            key="verus:%s:%s:%s:C10:lock_taken_again_while_guard_alive" % (name, d["fn"], (marker or "env").replace(" ", "_"))))
            else:
                res["status"] = "undecided"
                res["undecided"] = "borrow-check error in generated unit (%s, line %d)" % (d["message"], d["line"])
            continue
        if "Resource limit" in d["message"] or "rlimit" in d["message"]:
            res["status"] = "undecided"
            res["undecided"] = "rlimit in %s" % d["fn"]
            continue
        if charged and d["fn"] in getattr(u, "opaque_closures", {}):
            # Verus knows nothing about the result of a closure that carries no specification: a proof that breaks in a function
            # containing one (e.g. after a refactoring to `.map(|x| ..)`) is a dialect limit, not a refutation
            res["status"] = "undecided"
            res["undecided"] = "unsupported construct in %s: closure without specification (%s); obligation `%s` not decided" % (d["fn"], u.opaque_closures[d["fn"]], d["message"])
            continue
        if charged:
            bad += 1
            res["failures"].append(dict(engine="verus", unit=name, fn=d["fn"], label=d["label"], message=d["message"],
                                        clause=d["text"], extracted=marker, key=key, rendered=d["rendered"], path=path))
    res["discharged"] = res["obligations"] - bad
    if bad and res["status"] == "ok":
        res["status"] = "fail"
    res["verified_fns"] = vr.verified
    # vacuity guard (thorough tier): the twin of the unit in which every extracted function additionally promises `false`
    # must FAIL in every one of them; a function that proves `false` has a contradictory precondition / stub contract
    if tier == "thorough" and res["status"] in ("ok", "fail"):
        from concurrent.futures import ThreadPoolExecutor
        _, total = vacuity_twin(text)

        def one(k):
            tw, _n = vacuity_twin(text, only=k)
            tp = path.replace(".rs", "_vac%d.rs" % k)
            open(tp, "w").write(tw)
            fn = (marked_functions(tw) or ["?"])[0]
            tv = vx.run_verus(tp, rlimit=60, extra=["--verify-function", fn] if False else None)
            refuted = any(("VACUITY" in d["text"] or "VACUITY" in d.get("rendered", "")) for d in tv.diags)
            try:
                os.unlink(tp)
            except OSError:
                pass
            return fn, refuted, tv.undecided
        with ThreadPoolExecutor(max_workers=12) as ex:
            outs = list(ex.map(one, range(total)))
        missing = [f for f, ok, und in outs if not ok]
        res["vacuity"] = dict(functions=total, refuted=total - len(missing))
        if missing and res["status"] == "ok":
            res["status"] = "undecided"
            res["undecided"] = "vacuity guard: `ensures false` was not refuted for %s (contradictory requires / stub contract, or tool failure)" % missing[:6]
    if not keep and res["status"] == "ok":
        os.unlink(path)
    return res


# --------------------------------------------------------------------------------------------- kani
# failure descriptions that are limits of the tool, not refutations: incomplete unwinding, unsupported constructs, and Kani's own
# allocator-layout bookkeeping (trips on std's in-place `collect` specialisation)
UNDECIDED_KANI = ("unwinding assertion", "unsupported", "not currently supported", "is not supported",
                  "rust_dealloc must be called on an object whose allocated size matches its layout",
                  "rust_realloc must be called on an object whose allocated size matches its layout",
                  "free argument must be NULL or valid pointer", "free argument must be dynamic object", "free argument has offset zero",
                  "double free", "free called for new[] object", "free called for stack-allocated object")


def run_kani(prop, tier, harnesses):
    """harnesses: {name: info}. returns dict(status, obligations, discharged, failures, bounded, per-harness)"""
    res = dict(status="ok", obligations=0, discharged=0, failures=[], undecided=None, harness={}, bounded=[],
               time_s=0.0, cmds=[], checks=0)
    groups = {}
    for h, info in harnesses.items():
        if info["thorough_only"] and tier == "quick":
            continue
        groups.setdefault(info["group"], []).append(h)
    for grp, hs in groups.items():
        log = os.path.join(SCRATCH, "kani.%s.%s.%d.log" % (prop, grp, os.getpid()))
        os.makedirs(SCRATCH, exist_ok=True)
        r = kx.run_group(grp, sorted(hs), timeout_s=(3000 if tier == "quick" else 10800), log_path=log,
                         harness_timeout_s=(1200 if tier == "quick" else 4500), rss_limit_gb=(10 if tier == "quick" else 20))
        res["cmds"].append(r.cmd)
        res["time_s"] += r.wall_s
        if r.missing_anchor:
            res["status"] = "undecided"
            res["undecided"] = "lost anchor: source file(s) %s" % r.missing_anchor
        for h in hs:
            hr = r.harness.get(h)
            info = harnesses[h]
            if hr is None or hr["status"] in ("UNKNOWN", "TIMEOUT"):
                res["status"] = "undecided"
                res["undecided"] = (res["undecided"] or "") + " harness %s produced no verdict (build error, timeout or tool failure; log %s)" % (h, log)
                continue
            entry = dict(status=hr["status"], checks=hr["checks_total"], failed=hr["checks_failed"], time_s=hr["time_s"],
                         covers="%d/%d" % (hr["covers_sat"], hr["covers_total"]), bounded=info["bounded"], group=grp)
            res["harness"][h] = entry
            if info["bounded"]:
                res["bounded"].append(h)
            else:
                res["obligations"] += 1
                res["checks"] += hr["checks_total"]
            if hr["covers_total"] and hr["covers_sat"] < hr["covers_total"] and hr["status"] == "SUCCESSFUL":
                res["status"] = "undecided"
                res["undecided"] = "vacuity guard: harness %s has an unsatisfied cover" % h
            if hr["status"] == "SUCCESSFUL":
                if not info["bounded"]:
                    res["discharged"] += 1
            else:
                descs = hr["failed_desc"] or ["(no failed-check description)"]
                if any(any(u in d for u in UNDECIDED_KANI) for d in descs) and all(
                        any(u in d for u in UNDECIDED_KANI) or "unreachable" in d for d in descs):
                    res["status"] = "undecided"
                    res["undecided"] = "harness %s: %s" % (h, descs[0])
                    continue
                d0 = re.sub(r'@File:.*', '', descs[0]).strip()
                key = "kani:%s:%s:%s" % (grp, h, re.sub(r'\s+', '_', d0))
                res["failures"].append(dict(engine="kani", group=grp, harness=h, descs=descs, key=key, bounded=info["bounded"]))
                if res["status"] == "ok":
                    res["status"] = "fail"
        if res["status"] == "ok" and os.path.exists(log):
            os.unlink(log)
    return res


def kani_playback(failure):
    """second run of one failed harness with concrete playback; then native replay through `cargo kani playback`."""
    grp, h = failure["group"], failure["harness"]
    out = dict(test="", native="not attempted", native_log="")
    r = kx.run_group(grp, [h], timeout_s=900, playback=True)
    hr = r.harness.get(h)
    if not hr or not hr.get("playback"):
        out["native"] = "verifier produced no concrete counterexample"
        return out
    out["test"] = hr["playback"]
    m = re.search(r'fn\s+(kani_concrete_playback_\w+)', hr["playback"])
    if not m:
        return out
    tname = m.group(1)
    info = kani_harnesses()[h]
    # native replay: harness module + generated test, run through cargo kani playback (stubs are NOT applied there)
    hpath = os.path.join(VERIF, "kani", info["file"])
    tmp = tempfile.mkdtemp(prefix="vhost-verif-pb-")
    try:
        hcopy = os.path.join(tmp, "harness_with_test.rs")
        open(hcopy, "w").write(open(hpath).read() + "\n" + hr["playback"] + "\n")
        repo_copy = os.path.join(tmp, "repo")
        kx._sync_repo(repo_copy)
        g = kx.GROUPS[grp]
        spath = os.path.join(repo_copy, g["crate"], info["src"])
        with open(spath, "a") as f:
            f.write('\n#[cfg(kani)]\n#[path = "%s"]\npub(crate) mod verif_kani;\n' % hcopy)
        cmd = ["cargo", "kani", "playback", "-Z", "concrete-playback"]
        if g["features"]:
            cmd += ["--features", g["features"]]
        cmd += ["--", tname]
        env = dict(os.environ); env["CARGO_NET_OFFLINE"] = "true"; env["CARGO_TARGET_DIR"] = os.path.join(tmp, "target")
        try:
            p = subprocess.run(cmd, cwd=os.path.join(repo_copy, g["crate"]), env=env, stdout=subprocess.PIPE,
                               stderr=subprocess.STDOUT, text=True, timeout=900)
            log = p.stdout
        except subprocess.TimeoutExpired:
            log = "timeout"
        out["native_log"] = log[-3000:]
        if re.search(r'test result: FAILED|panicked at', log):
            out["native"] = "reproduced: the concrete input makes the harness assertion fail natively on the real code"
        elif "test result: ok" in log:
            out["native"] = "not reproduced natively (harness depends on stubs, which playback does not apply)"
        else:
            out["native"] = "native replay inconclusive"
    finally:
        shutil.rmtree(tmp, ignore_errors=True)
    return out


# --------------------------------------------------------------------------------------------- driver
def write_replay(prop, failure, extra):
    d = os.path.join(REPLAY, prop)
    os.makedirs(d, exist_ok=True)
    hid = hashlib.sha256(failure["key"].encode()).hexdigest()[:12]
    path = os.path.join(d, "%s.json" % hid)
    rec = dict(property=prop, obligation=failure["key"], engine=failure["engine"], failure=failure, detail=extra,
               how_to_replay="./check %s --replay %s" % (prop, path))
    json.dump(rec, open(path, "w"), indent=1, default=str)
    return path


LAST_WAIVED = []
# (unit regex, function regex, message regex, complete Kani harnesses deciding the same contract for every input)
PROOF_ALTERNATIVES = [
    (r'^(backend|frontend|proxy|gpu)$', r'^is_valid$', r'postcondition',
     ["c20_hdr_valid_frontend", "c20_hdr_valid_backend", "c20_memory_valid", "c20_memory_region_valid", "c20_single_memory_region_valid",
      "c20_vring_addr_valid", "c20_config_valid", "c20_inflight_valid", "c20_log_valid", "c20_transfer_state_valid", "c20_shared_msg_valid",
      "c20_mmap_valid", "c20_unconstrained_validators"]),
    # helpers of the backend request server whose whole contract is also a complete Kani proof on the real code
    (r'^backend$', r'^update_reply_ack_flag$', r'postcondition', ["c04_update_reply_ack_flag"]),
    (r'^backend$', r'^new_reply_header$', r'postcondition', ["c04_new_reply_header"]),
    (r'^backend$', r'^check_request_size$', r'postcondition', ["c05_check_request_size"]),
    (r'^backend$', r'^handle_vring_fd_request$', r'postcondition', ["c05_c09_handle_vring_fd_request"]),
]


def waive_by_alternative_proofs(prop, tier, failures, kres):
    keep_f, waived = [], []
    ran = {}
    if kres:
        for h, ent in kres.get("harness", {}).items():
            ran[h] = ent.get("status")
    for f in failures:
        alt = None
        if f.get("engine") == "verus":
            for (ure, fre, mre, hs) in PROOF_ALTERNATIVES:
                if re.search(ure, f.get("unit") or "") and re.search(fre, f.get("fn") or "") and re.search(mre, f.get("message") or ""):
                    alt = hs
                    break
        if not alt:
            keep_f.append(f)
            continue
        need = [h for h in alt if ran.get(h) != "SUCCESSFUL"]
        if need:
            allh = kani_harnesses()
            by_group = {}
            for h in need:
                if h in allh:
                    by_group.setdefault(allh[h]["group"], []).append(h)
            for grp, hs in by_group.items():
                r = kx.run_group(grp, sorted(hs), timeout_s=3000, harness_timeout_s=1200, rss_limit_gb=10,
                                 log_path=os.path.join(SCRATCH, "kani.%s.alt.%d.log" % (prop, os.getpid())))
                for h, hr in r.harness.items():
                    ran[h] = hr.get("status")
        if all(ran.get(h) == "SUCCESSFUL" for h in alt):
            waived.append((f["key"], alt))
        else:
            keep_f.append(f)
    return keep_f, waived


def run_property(prop, tier="quick", seed=0, keep=False):
    t0 = time.time()
    if prop not in ALL_PROPS:
        print("unknown property", prop)
        return 2
    hs = {h: i for h, i in kani_harnesses().items() if prop in i["props"]}
    units = VERUS_FOR.get(prop, [])
    if not hs and not units:
        print("property %s has no registered obligations (not claimed)" % prop)
        return 2
    known, fixed = load_known()
    failures, undecided = [], []
    kres = run_kani(prop, tier, hs) if hs else None
    vres = []
    for un in units:
        vres.append(run_verus_unit(un, prop, tier, keep=keep))
    if kres:
        failures += kres["failures"]
        if kres["status"] == "undecided":
            undecided.append("kani: " + str(kres["undecided"]))
    for v in vres:
        failures += v["failures"]
        if v["status"] == "undecided":
            undecided.append("verus %s: %s" % (v["unit"], v["undecided"]))
    # baseline: registered obligation counts
    obligations = (kres["obligations"] if kres else 0) + sum(v["obligations"] for v in vres)
    discharged = (kres["discharged"] if kres else 0) + sum(v["discharged"] for v in vres)
    base = json.load(open(BASELINE)).get(prop) if os.path.exists(BASELINE) else None
    if base and not undecided:
        if obligations < base["obligations"]:
            undecided.append("obligation count %d below the registered baseline %d (lost obligations)" % (obligations, base["obligations"]))
    # a Verus obligation whose contract is ALSO discharged by complete Kani proofs on the real code is waived when those proofs
    # pass (run on demand): the solver failing to re-prove an equivalent formulation (e.g. `x % 16 == 0` for `x & 0xf == 0`) is
    # a proof gap, the Kani harness is the deciding step for that contract
    failures, waived = waive_by_alternative_proofs(prop, tier, failures, kres)
    global LAST_WAIVED
    LAST_WAIVED = [dict(obligation=w[0], discharged_instead_by=w[1]) for w in waived]
    for w in waived:
        print("NOTE: %s not re-proved by Verus; the same contract is discharged on the real code by %s" % (w[0], ", ".join(w[1])))
    # classify failures
    violations, known_hits = [], []
    seen_keys = set()
    for f in failures:
        if f["key"] in seen_keys:
            continue
        seen_keys.add(f["key"])
        hit = None
        for k in known:
            if k["prop"] == prop and k["key"].search(f["key"]):
                hit = k
                break
        if hit:
            known_hits.append((f, hit))
        else:
            violations.append(f)
    rc = 0
    for f, k in known_hits:
        print("KNOWN-FINDING: property=%s %s" % (prop, k["text"]))
    for f in violations:
        extra = {}
        suffix = ""
        if f["engine"] == "kani":
            extra = kani_playback(f)
            if not extra.get("test"):
                suffix = " no-failing-input-found"
        else:
            extra = dict(verifier_output=f.get("rendered", ""), generated_unit=f.get("path"))
            suffix = " no-failing-input-found"
        path = write_replay(prop, f, extra)
        what = f.get("harness") or ("%s %s" % (f.get("fn"), f.get("label") or ""))
        print("failed obligation: %s" % f["key"])
        print("VIOLATION property=%s replay=%s%s" % (prop, path, suffix))
        rc = 1
    for u in undecided:
        print("UNDECIDED: %s" % u)
    if rc == 0 and undecided:
        rc = 2
    write_evidence(prop, tier, seed, kres, vres, obligations, discharged, violations, known_hits, undecided, time.time() - t0)
    if rc == 0:
        print("OK property=%s obligations=%d discharged=%d%s wall=%.0fs" % (
            prop, obligations, discharged, " (+%d known finding)" % len(known_hits) if known_hits else "", time.time() - t0))
    return rc


def write_evidence(prop, tier, seed, kres, vres, obligations, discharged, violations, known_hits, undecided, wall):
    os.makedirs(EVID, exist_ok=True)
    samples = []
    funcs = []
    assumptions = list(STANDING_ASSUMPTIONS)
    by_backend = {}
    bounded = []
    rules = {}
    checker = []
    solver_s = 0.0
    vac = {}
    scans = []
    if kres:
        by_backend["kani/cbmc"] = dict(harnesses=kres["obligations"], discharged=kres["discharged"], property_checks=kres["checks"])
        checker += kres["cmds"]
        solver_s += sum(h["time_s"] for h in kres["harness"].values())
        for h, e in sorted(kres["harness"].items()):
            funcs.append(dict(obligation="kani harness " + h, engine="kani", status=e["status"], checks=e["checks"],
                              covers=e["covers"], bounded=e["bounded"], time_s=round(e["time_s"], 2)))
            if e["bounded"]:
                bounded.append(dict(harness=h, result=e["status"], note="bounded stand-in; not counted in obligations/discharged"))
        for h, e in list(sorted(kres["harness"].items()))[:3]:
            samples.append(dict(kind="kani harness", name=h, checks=e["checks"], status=e["status"]))
    for v in vres:
        by_backend["verus/z3 (%s)" % v["unit"]] = dict(obligations=v["obligations"], discharged=v["discharged"],
                                                      extracted_functions=len(v["functions"]))
        checker.append(v["cmd"])
        solver_s += v["smt_s"]
        assumptions += v["assumptions"]
        for k, n in v["rules"].items():
            rules[k] = rules.get(k, 0) + n
        for (rel, item, h) in v["spans"]:
            funcs.append(dict(obligation="verus: %s :: %s" % (rel, item), engine="verus", span_sha256_16=h))
        samples.append(dict(kind="verus unit", unit=v["unit"], extracted_functions=v["functions"][:8], status=v["status"]))
        if v.get("vacuity"):
            vac[v["unit"]] = v["vacuity"]
        for sc in v.get("scans", []):
            scans.append(dict(unit=v["unit"], name=sc["name"], ok=sc["ok"], what=sc["desc"][:200]))
    n_known = len(known_hits)
    ev = dict(
        property_id=prop, tier=tier, seed=seed, level="proof",
        coverage=dict(
            # obligations listed as known findings (known_findings.txt) are reported under known_findings, not counted here
            obligations=max(obligations - n_known, 0), discharged=max(discharged, 0),
            checker_cmd=" ; ".join(checker) or "none",
            trusted_base=["Kani 0.68 / CBMC 6.11", "Verus 0.2026.09.13 / Z3", "rustc", "environment stubs tagged assumed:* (see assumptions)"],
            samples=samples or ["none"],
            functions_under_contract=funcs,
            by_backend=by_backend,
            solver_time_s=round(solver_s, 2),
            rewrite_rules_fired={k: dict(count=n, meaning=vx.RULES.get(k, "see vx.py / unit file")) for k, n in sorted(rules.items())},
            bounded_checks=bounded,
            vacuity_guard=dict(kani="every kani::cover! behind an assume/oracle must be satisfied (else undecided)",
                               verus=vac or "thorough tier only: per extracted function, a twin with `ensures false` must be refuted"),
            syntactic_obligations=scans[:40],
            syntactic_obligations_total=len(scans),
            known_findings=[k["text"] for f, k in known_hits],
            verus_obligations_discharged_by_kani_instead=LAST_WAIVED,
            failed_obligations=[f["key"] for f in violations],
            undecided=undecided,
            explanation="obligations = complete Kani harnesses (one each; bounded ones listed separately, never counted) + labelled Verus postconditions of this property + one safety obligation set per extracted function",
        ),
        assumptions=sorted(set(assumptions)),
        wall_s=round(wall, 1),
        violations=len(violations),
    )
    json.dump(ev, open(os.path.join(EVID, "%s.json" % prop), "w"), indent=1)


def replay(prop, path):
    rec = json.load(open(path))
    f = rec["failure"]
    print("replaying obligation %s" % rec["obligation"])
    if f["engine"] == "kani":
        hs = {f["harness"]: kani_harnesses()[f["harness"]]}
        r = run_kani(prop, "quick", hs)
        st = r["harness"].get(f["harness"], {}).get("status")
        print("kani harness %s: %s" % (f["harness"], st))
        if st == "FAILED":
            pb = kani_playback(r["failures"][0]) if r["failures"] else {}
            print(pb.get("test", ""))
            print("native replay:", pb.get("native"))
            print("VIOLATION property=%s replay=%s" % (prop, path))
            return 1
        return 0 if st == "SUCCESSFUL" else 2
    v = run_verus_unit(f["unit"], prop, "quick", keep=True)
    same = [x for x in v["failures"] if x["key"] == f["key"]]
    if same:
        print(same[0]["rendered"])
        print("VIOLATION property=%s replay=%s no-failing-input-found" % (prop, path))
        return 1
    print("obligation discharged on the current tree" if v["status"] == "ok" else "status: %s %s" % (v["status"], v["undecided"]))
    return 0 if v["status"] == "ok" else 2


def rebaseline():
    """writes baseline/obligations.json from the evidence files of a clean run (committed; never written by a check)"""
    base = {}
    for p in ALL_PROPS:
        f = os.path.join(VERIF, "evidence", "%s.json" % p)
        if os.path.exists(f):
            ev = json.load(open(f))
            if ev.get("violations", 0) == 0:
                base[p] = dict(obligations=ev["coverage"]["obligations"] + len(ev["coverage"].get("known_findings", [])))
    os.makedirs(os.path.dirname(BASELINE), exist_ok=True)
    json.dump(base, open(BASELINE, "w"), indent=1, sort_keys=True)
    print("baseline written for", sorted(base))


def list_all():
    hs = kani_harnesses()
    for p in ALL_PROPS:
        k = sorted(h for h, i in hs.items() if p in i["props"])
        print(p, "kani:", len(k), "verus units:", VERUS_FOR.get(p, []))
        for h in k:
            print("    ", h, "(bounded)" if hs[h]["bounded"] else "")
