"""Verus unit `kern` (C19): the in-kernel vhost / vDPA operations that Kani cannot reach or cannot afford:
  * ioctl_result / io_result (classification of the kernel's return value),
  * send_iotlb_msg (libc::write cannot be stubbed in Kani 0.68), dma_map / dma_unmap on top of it,
  * set_mem_table (VhostMemory: `vec![..; count]` with a computed count exhausts CBMC's memory even for one region),
  * vDPA get_config / set_config (FamStructWrapper: same).
Every region count / buffer length is covered (no bound). The ioctl layer, write(2), VhostMemory's byte layout (Kani:
c19_vhost_memory_layout_*) and FamStructWrapper (dependency, A-FAM) are the boundary."""
import re
from vx import Unit, Source, ExtractError

KERN = "vhost/src/vhost_kern/mod.rs"
VDPA = "vhost/src/vhost_kern/vdpa.rs"


def build():
    u = Unit("kern")
    kern, vdpa = Source(KERN), Source(VDPA)
    u.raw("use vstd::prelude::*;\nverus! {\nglobal size_of usize == 8;   // A-ARITH: 64-bit target\n")
    u.env("kern.rs")
    maxreg = Source("vhost/src/backend.rs").const_value("VHOST_MAX_MEMORY_REGIONS")
    if maxreg.replace("_", "") != "255":
        raise ExtractError("unsupported construct: VHOST_MAX_MEMORY_REGIONS = %s (the environment and the contract are written for 255)" % maxreg)
    # ---- C19: send_iotlb_msg (the bytes handed to write(2): libc::write cannot be stubbed in Kani)
    ispan = kern.impl_span(r'^impl<I: VhostKernBackend \+ VhostKernFeatures> VhostIotlbBackend for I')
    bind = Source("vhost/src/vhost_kern/vhost_binding.rs")
    u.raw("// R4: constants re-emitted with the values of the working tree\npub const VHOST_IOTLB_MSG: i32 = %s;\npub const VHOST_IOTLB_MSG_V2: u32 = %s;\npub const VHOST_BACKEND_F_IOTLB_MSG_V2: u64 = %s;"
          % (bind.const_value("VHOST_IOTLB_MSG"), bind.const_value("VHOST_IOTLB_MSG_V2"), bind.const_value("VHOST_BACKEND_F_IOTLB_MSG_V2")))
    u.raw("impl KernDev {")
    u.extracted_fn(kern, "send_iotlb_msg", within=ispan,
                   sig_rw=[("R8", r'&self\b', '&mut self'), ("R10", r'Result<\(\)>', 'KResult<()>')],
                   body_rw=[("R25", r'vhost_msg_v2 \{\s*type_: ([^,}]+),\s*\.\.Default::default\(\)\s*\}', r'vhost_msg_v2_with_type(\1)'),
                            ("R25", r'vhost_msg \{\s*type_: ([^,}]+),\s*\.\.Default::default\(\)\s*\}', r'vhost_msg_with_type(\1)'),
                            ("R25", r'msg\.perm as u8', 'access_as_u8(msg.perm)'), ("R25", r'msg\.msg_type as u8', 'iotlb_type_as_u8(msg.msg_type)'),
                            ("R20", r'unsafe \{\s*write\(\s*self\.as_raw_fd\(\),\s*&(\w+) as \*const vhost_msg_v2 as \*const c_void,\s*(?:mem::size_of|size_of_)::<vhost_msg_v2>\(\),?\s*\)\s*\}', r'self.write_v2(self.as_raw_fd(), &\1, size_of_vhost_msg_v2())'),
                            ("R20", r'unsafe \{\s*write\(\s*self\.as_raw_fd\(\),\s*&(\w+) as \*const vhost_msg as \*const c_void,\s*(?:mem::size_of|size_of_)::<vhost_msg>\(\),?\s*\)\s*\}', r'self.write_v1(self.as_raw_fd(), &\1, size_of_vhost_msg())')],
                   hints=[(r'if self\.get_backend_features_acked\(\)', "assert((1u64 << 1u64) == 2u64) by (bit_vector);")],
                   contract="""
        ensures
            final(self).written@.len() == old(self).written@.len() + 1, // [C19] exactly one write(2)
            match final(self).written@.last() {
                // [C19] V2 layout iff IOTLB_MSG_V2 was acknowledged; type tag, full struct size, and the caller's fields at the iotlb member
                Written::V2(m, n) => old(self).acked & 2 != 0 && m.type_ == 2 && m.asid == 0 && n == 72 && m.__bindgen_anon_1.iotlb == iotlb_of(*msg),
                Written::V1(m, n) => old(self).acked & 2 == 0 && m.type_ == 1 && n == 72 && m.__bindgen_anon_1.iotlb == iotlb_of(*msg),
            },""")
    u.raw("}")
    # ---- C19: ioctl_result / io_result
    for fn, ety in (("ioctl_result", "IoctlError"), ("io_result", "IOError")):
        u.extracted_fn(kern, fn, sig_rw=[("R10", r'Result<T>', 'KResult<T>')],
                       body_rw=[("R10", r'IoError::last_os_error\(\)', 'last_os_error()'), ("R10", r'Error::%s' % ety, 'KError::%s' % ety)],
                       contract="        ensures (r is Ok) == (rc >= 0), r is Ok ==> r->Ok_0 == res // [C19] a negative return is an error, anything else returns what the kernel wrote")
    # ---- set_mem_table (blanket impl of VhostBackend for VhostKernBackend)
    bspan = kern.impl_span(r'^impl<T: VhostKernBackend> VhostBackend for T')
    u.raw("impl KernDev {")
    u.extracted_fn(kern, "set_mem_table", within=bspan,
                   sig_rw=[("R8", r'&self\b', '&mut self'), ("R10", r'Result<\(\)>', 'KResult<()>')],
                   body_rw=[("R21", r'for \(index, region\) in regions\.iter\(\)\.enumerate\(\) \{', 'for index in 0..regions.len() { let region = &regions[index];'),
                            ("R10", r'Error::InvalidGuestMemory', 'KError::InvalidGuestMemory'),
                            ("R20", r'unsafe \{ ioctl_with_ptr\(self, VHOST_SET_MEM_TABLE\(\), vhost_memory\.as_ptr\(\)\) \}', 'self.ioctl_mem_table(VHOST_SET_MEM_TABLE(), &vhost_memory)')],
                   loops=[dict(kind="for", nth=0, iter="it", text="""            invariant 0 < regions@.len() <= 255, *self == *old(self), vhost_memory.n@ == regions@.len(), vhost_memory.regions@.len() == regions@.len(),
                forall|j: int| 0 <= j < index ==> (#[trigger] vhost_memory.regions@[j]) == region_of(regions@[j]),""")],
                   contract="""
        ensures
            (regions@.len() == 0 || regions@.len() > 255) ==> r is Err && final(self).ioctls@ == old(self).ioctls@, // [C19] an empty or over-long table is refused with zero ioctls
            (0 < regions@.len() <= 255) ==> final(self).ioctls@.len() == old(self).ioctls@.len() + 1 && (match final(self).ioctls@.last() {
                IoctlRec::MemTable(req, n, rs) => req == Req::SetMemTable && n == regions@.len() && rs.len() == regions@.len()
                    && forall|j: int| 0 <= j < rs.len() ==> (#[trigger] rs[j]) == region_of(regions@[j]),
                _ => false }), // [C19] exactly one VHOST_SET_MEM_TABLE whose header counts the regions and whose entry j carries region j's guest address, size and user address unchanged (padding 0)
            final(self).written@ == old(self).written@,""")
    u.raw("}")
    # ---- vDPA: config space, dma_map / dma_unmap
    vspan = vdpa.impl_span(r'^impl<AS: GuestAddressSpace> VhostVdpa for VhostKernVdpa<AS>')
    CFG = [("R6", r'VhostVdpaConfig::new\(buffer\.len\(\)\)\s*\.map_err\(\|_\| Error::IoctlError\(IOError::from_raw_os_error\((?:libc::ENOMEM|12i32)\)\)\)\?',
            'VhostVdpaConfig::new(buffer.len()).map_err(|e: FamErr| -> (o: KError) { KError::IoctlError(IoError::Os(12i32)) })?'),
           ("R20", r'unsafe \{\s*config\.as_mut_fam_struct\(\)\.off = ([^;]+);\s*\}', r'config.set_off(\1);'),
           ("R20", r'unsafe \{\s*ioctl_with_ptr\(\s*self,\s*VHOST_VDPA_GET_CONFIG\(\),\s*config\.as_mut_fam_struct_ptr\(\),?\s*\)\s*\}', 'self.ioctl_config(VHOST_VDPA_GET_CONFIG(), &mut config)'),
           ("R20", r'unsafe \{ ioctl_with_ptr\(self, VHOST_VDPA_SET_CONFIG\(\), config\.as_fam_struct_ptr\(\)\) \}', 'self.ioctl_config(VHOST_VDPA_SET_CONFIG(), &mut config)'),
           ("R19", r'buffer\.copy_from_slice\(config\.as_slice\(\)\);', 'config.copy_to(buffer);'),
           ("R19", r'config\.as_mut_slice\(\)\.copy_from_slice\(buffer\);', 'config.fill_from(buffer);')]
    SIG = [("R8", r'&self\b', '&mut self'), ("R10", r'Result<\(\)>', 'KResult<()>')]
    u.raw("impl KernDev {")
    u.extracted_fn(vdpa, "get_config", within=vspan, sig_rw=SIG, body_rw=CFG, contract="""
        ensures
            final(self).ioctls@.len() <= old(self).ioctls@.len() + 1,
            r is Ok ==> final(self).ioctls@.len() == old(self).ioctls@.len() + 1,
            final(self).ioctls@.len() == old(self).ioctls@.len() + 1 ==> (match final(self).ioctls@.last() {
                IoctlRec::Config(req, off, len, _b) => req == Req::VdpaGetConfig && off == offset && len == old(buffer)@.len(), _ => false }), // [C19] one VHOST_VDPA_GET_CONFIG with the caller's offset and the buffer's length
            final(buffer)@.len() == old(buffer)@.len(),
            final(self).written@ == old(self).written@,""")
    u.extracted_fn(vdpa, "set_config", within=vspan, sig_rw=SIG, body_rw=CFG, contract="""
        ensures
            final(self).ioctls@.len() <= old(self).ioctls@.len() + 1,
            r is Ok ==> final(self).ioctls@.len() == old(self).ioctls@.len() + 1,
            final(self).ioctls@.len() == old(self).ioctls@.len() + 1 ==> (match final(self).ioctls@.last() {
                IoctlRec::Config(req, off, len, b) => req == Req::VdpaSetConfig && off == offset && len == buffer@.len() && b == buffer@, _ => false }), // [C19] one VHOST_VDPA_SET_CONFIG carrying offset, length and exactly the caller's bytes
            final(self).written@ == old(self).written@,""")
    DMA = [("R25", r'VhostIotlbMsg \{\s*iova,\s*size,\s*msg_type: VhostIotlbType::Invalidate,\s*\.\.Default::default\(\)\s*\}',
            'VhostIotlbMsg { iova, size, msg_type: VhostIotlbType::Invalidate, userspace_addr: 0, perm: VhostAccess::No }')]
    u.extracted_fn(vdpa, "dma_map", within=vspan, sig_rw=SIG + [("R20", r'vaddr: \*const u8', 'vaddr: usize')], body_rw=DMA, contract="""
        ensures final(self).written@.len() == old(self).written@.len() + 1,
            match final(self).written@.last() {
                Written::V2(m, n) => m.__bindgen_anon_1.iotlb == (vhost_iotlb_msg { iova: iova, size: size, uaddr: vaddr as u64, perm: if readonly { 1u8 } else { 3u8 }, type_: 2 }),
                Written::V1(m, n) => m.__bindgen_anon_1.iotlb == (vhost_iotlb_msg { iova: iova, size: size, uaddr: vaddr as u64, perm: if readonly { 1u8 } else { 3u8 }, type_: 2 }),
            }, // [C19] dma_map = one IOTLB UPDATE with the caller's iova / size / address (unchanged) and RO or RW access""")
    u.extracted_fn(vdpa, "dma_unmap", within=vspan, sig_rw=SIG, body_rw=DMA, contract="""
        ensures final(self).written@.len() == old(self).written@.len() + 1,
            match final(self).written@.last() {
                Written::V2(m, n) => m.__bindgen_anon_1.iotlb == (vhost_iotlb_msg { iova: iova, size: size, uaddr: 0, perm: 0, type_: 3 }),
                Written::V1(m, n) => m.__bindgen_anon_1.iotlb == (vhost_iotlb_msg { iova: iova, size: size, uaddr: 0, perm: 0, type_: 3 }),
            }, // [C19] dma_unmap = one IOTLB INVALIDATE for the caller's range""")
    u.raw("}")
    u.raw("fn main() {}\n} // verus!")
    return u
