"""Verus unit: vhost-user-backend/src/lib.rs — the sequential fragment of C16 (join-result classification of wait(),
result mapping and exit events of serve()), plus syntactic obligations on the shutdown order / Shutdown::Both sites."""
import re
from vx import Unit, Source, ExtractError

LIB = "vhost-user-backend/src/lib.rs"


def build():
    u = Unit("daemon")
    lib = Source(LIB)
    u.raw("use vstd::prelude::*;\nverus! {\n")
    u.env("daemon.rs")
    span = lib.impl_span(r'^impl<T> VhostUserDaemon<T> where')
    u.raw("impl VhostUserDaemon {")
    u.extracted_fn(lib, "reset_connection_state", within=span, contract="""
        ensures final(self).conn_state is None, final(self).handler == old(self).handler, final(self).main_thread == old(self).main_thread,
            final(self).epoch == old(self).epoch, final(self).flag_after_join == old(self).flag_after_join, final(self).flag_before_join == old(self).flag_before_join""")
    u.extracted_fn(lib, "wait", within=span, rename="wait_real",
                   body_rw=[("R6", r'self\s*\.conn_state\s*\.as_ref\(\)\s*\.is_some_and\(\|s\| s\.shutdown_requested\.load\(Ordering::Acquire\)\)', 'self.shutdown_requested_now()'),
                            ("R6", r'let shutdown_requested = \|\| \{\s*self\.shutdown_requested_now\(\)\s*\};', ''),
                            ("R6", r'\bshutdown_requested\(\)', 'self.shutdown_requested_now()'),
                            ("R18", r'handle\.join\(\)\.map_err\(Error::WaitDaemon\)\?',
                             'join_handle(handle, &mut self.epoch).map_err(|e: AnyBox| -> (o: Error) ensures o == Error::WaitDaemon(e) { Error::WaitDaemon(e) })?')],
                   contract="""
        requires old(self).epoch@ == 0
        ensures
            // [C16] no thread running: success, connection state reset
            old(self).main_thread is None ==> r is Ok && final(self).conn_state is None,
            // [C16] join-result classification: Ok; a broken socket -> Ok; any request error with a shutdown requested BY THE TIME THE THREAD
            // HAS BEEN JOINED -> Ok; otherwise the error is reported (a peer disconnect without shutdown is an error)
            (old(self).main_thread is Some && !old(self).main_thread->Some_0.panicked@) ==>
                r == wait_outcome(old(self).main_thread->Some_0.result@, old(self).conn_state is Some, old(self).flag_after_join@) && final(self).conn_state is None,
            (old(self).main_thread is Some && old(self).main_thread->Some_0.panicked@) ==> r is Err,
            final(self).main_thread is None, // [C16] the daemon can accept a new connection""")
    # serve(): wait() replaced by its contract (arbitrary result recorded in a ghost field)
    u.raw("""
    #[verifier::external_body]
    pub fn wait(&mut self) -> (r: Result<()>)
        ensures final(self).handler == old(self).handler, final(self).waited@ == old(self).waited@ + 1, final(self).started@ == old(self).started@,
            final(self).wait_result@ == r
    { unimplemented!() }
""")
    u.extracted_fn(lib, "serve", within=span,
                   sig_rw=[("R3", r'<P:\s*AsRef<Path>>', ''), ("R3", r'socket:\s*P', 'socket: PathStub')],
                   body_rw=[("R6", r'\.map_err\(Error::CreateVhostUserListener\)', '.map_err(|e: VhostUserError| -> (o: Error) { Error::CreateVhostUserListener(e) })'),
                            ("R8", r'self\.handler\.lock\(\)\.unwrap\(\)', 'self.handler_guard()')],
                   contract="""
        ensures
            // [C16] once the daemon was started, every worker's exit event is raised exactly once whatever wait() returned
            final(self).started@ == old(self).started@ + 1 && final(self).waited@ == old(self).waited@ + 1 ==> final(self).handler.exit_events@ == old(self).handler.exit_events@ + 1,
            final(self).waited@ == old(self).waited@ ==> final(self).handler.exit_events@ == old(self).handler.exit_events@ && r is Err,
            // [C16] clean and partial-header disconnects map to success, everything else is wait()'s result
            final(self).waited@ == old(self).waited@ + 1 ==> r == (match final(self).wait_result@ {
                Err(Error::HandleRequest(VhostUserError::Disconnected)) => Ok::<(), Error>(()),
                Err(Error::HandleRequest(VhostUserError::PartialMessage)) => Ok::<(), Error>(()),
                other => other }),""")
    u.raw("}")
    # ShutdownHandle::shutdown as a contract (third session; the scan below stays): the flag is stored BEFORE the socket is shut down, in
    # both directions, and nothing else happens to the connection state
    u.raw("impl ShutdownHandle {")
    u.extracted_fn(lib, "shutdown", within=lib.impl_span(r'^impl ShutdownHandle$'),
                   sig_rw=[("R8", r'&self\b', '&mut self')],
                   body_rw=[("R8", r'self\.state\.shutdown_requested\.store\((\w+), Ordering::\w+\)', r'self.state.store_flag(\1)'),
                            ("R8", r'self\.state\.conn\.shutdown\(Shutdown::(\w+)\)', r'self.state.conn_shutdown(ShutdownHow::\1)')],
                   contract="""
        ensures final(self).state.evs@ =~= old(self).state.evs@.push(ShutEv::Flag(true)).push(ShutEv::Sock(ShutdownHow::Both)), // [C16:shutdown-order] the request is recorded first (wait() then classifies the daemon thread's error as a requested shutdown), then the socket is shut down in BOTH directions (unblocks the daemon thread's read; the peer observes end-of-stream)""")
    u.raw("}")
    # ---- syntactic obligations (order of two calls on a shared object; constants) ----
    strip = u.rw.strip_comments
    sh = strip(lib.fn_body("shutdown", within=lib.impl_span(r'^impl ShutdownHandle$')))
    u.scan(["C16"], "shutdown_flag_before_socket", ".store(true" in sh and "shutdown(Shutdown::Both)" in sh and sh.index(".store(true") < sh.index("shutdown(Shutdown::Both)"),
           "ShutdownHandle::shutdown stores the shutdown flag BEFORE shutting the socket down in both directions")
    dr = strip(lib.fn_body("drop", within=lib.impl_span(r'impl<T: VhostUserBackend> Drop for VhostUserDaemon<T>')))
    u.scan(["C16"], "drop_shuts_both_directions", "conn.shutdown(Shutdown::Both)" in dr and "conn_state.take()" in dr,
           "Drop for VhostUserDaemon shuts the connection down in BOTH directions (unblocks the daemon thread's read)")
    # the daemon thread: serving loop, then shutdown(Both), then the loop's result - wherever that code lives (closure in
    # start_daemon or a helper it calls)
    whole = strip(lib.src[:lib.src.index("#[cfg(test)]")] if "#[cfg(test)]" in lib.src else lib.src)
    m = re.search(r'let (\w+) = loop \{(?:(?!\bfn\b).)*?handle_request\(\)(?:(?!\bfn\b).)*?\};\s*let _ = [\w\.]*conn\.shutdown\(Shutdown::Both\);\s*\1\b', whole, re.S)
    serving_loops = len(re.findall(r'handle_request\(\)', whole))
    if m:
        u.scan(["C16"], "daemon_thread_shuts_socket_on_every_exit", True,
               "the daemon thread shuts the socket down (both directions) after the serving loop on every exit, then returns the loop's result: the peer observes end-of-stream whenever serving stops")
    else:
        # the shape was not recognised: a violation only if the text shows a one-directional / missing shutdown next to the serving loop
        region = whole[max(0, whole.find("handle_request()") - 200): whole.find("handle_request()") + 600] if serving_loops else ""
        bad = bool(re.search(r'Shutdown::(Read|Write)\b', region)) or (serving_loops > 0 and "shutdown(" not in region)
        u.scan(["C16"], "daemon_thread_shuts_socket_on_every_exit", False,
               "the daemon thread's serving loop is followed by shutdown(Both) and returns the loop's result (shape not recognised%s)" % ("; a one-directional or missing shutdown follows the loop" if bad else ""),
               on_fail=("violation" if bad else "undecided"))
    sv = strip(lib.fn_body("serve", within=span))
    def depth0_positions(text, needle):
        out, depth = [], 0
        i = 0
        while i < len(text):
            c = text[i]
            if c in '{(':
                depth += 1
            elif c in '})':
                depth -= 1
            elif depth == 0 and text.startswith(needle, i):
                out.append(i)
            i += 1
        return out
    # `self.handler.lock().unwrap().send_exit_event();` as a statement of the function body itself: the needle starts at depth 0
    ex = depth0_positions(sv, "self.handler.lock().unwrap().send_exit_event()")
    wpos = sv.find(".wait()")
    between = sv[wpos:ex[0]] if (ex and wpos >= 0 and wpos < ex[0]) else "?"
    u.scan(["C16"], "serve_raises_exit_events_unconditionally", len(ex) == 1 and wpos >= 0 and "?" not in between and "return" not in between,
           "serve(): after wait() returns - whatever it returns - every worker's exit event is raised by a statement of the function body itself (not inside a closure, branch or match arm), with no early exit in between")
    u.raw("fn main() {}\n} // verus!")
    return u
