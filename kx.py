#!/usr/bin/env python3
"""kx — Kani driver.

Takes a *group* (crate, feature set, list of (source file, harness module) injections,
optional contract-attribute insertions) and a list of harness names; copies the CURRENT
/repo working tree to a scratch directory outside /repo and /verif, appends one
`#[cfg(kani)] #[path=...] mod verif_kani;` line to each verified source file, runs
`cargo kani` offline on the real crate, parses per-harness results, and removes the
scratch copy.  Nothing in /repo is touched.
"""
import os, re, shutil, subprocess, sys, tempfile, time, json, fcntl, hashlib

VERIF = os.path.dirname(os.path.abspath(__file__))
REPO = os.environ.get("VERIF_REPO", "/repo")
CACHE = os.path.join(VERIF, ".cache")

GROUPS = {
    # group name -> crate dir, cargo features, injections (src relative to crate dir -> harness file relative to /verif/kani)
    "vhost": {
        "crate": "vhost",
        "features": "vhost-user-frontend,vhost-user-backend",
        "inject": {
            "src/vhost_user/message.rs": "vhost/message.rs",
            "src/vhost_user/gpu_message.rs": "vhost/gpu_message.rs",
            "src/vhost_user/connection.rs": "vhost/connection.rs",
            "src/vhost_user/backend_req_handler.rs": "vhost/backend_req_handler.rs",
            "src/vhost_user/frontend_req_handler.rs": "vhost/frontend_req_handler.rs",
            "src/vhost_user/frontend.rs": "vhost/frontend.rs",
            "src/vhost_user/backend_req.rs": "vhost/backend_req.rs",
            "src/vhost_user/mod.rs": "vhost/mod.rs",
            "src/backend.rs": "vhost/backend.rs",
        },
    },
    "kern": {
        "crate": "vhost",
        "features": "vhost-kern,vhost-vdpa,vhost-net,vhost-vsock",
        "inject": {
            "src/vhost_kern/mod.rs": "kern/mod.rs",
            "src/vhost_kern/vdpa.rs": "kern/vdpa.rs",
            "src/vhost_kern/net.rs": "kern/net.rs",
            "src/vhost_kern/vsock.rs": "kern/vsock.rs",
            "src/vhost_kern/vhost_binding.rs": "kern/vhost_binding.rs",
        },
    },
    "vub": {
        "crate": "vhost-user-backend",
        "features": "",
        "inject": {
            "src/bitmap.rs": "vub/bitmap.rs",
            "src/handler.rs": "vub/handler.rs",
            "src/vring.rs": "vub/vring.rs",
            "src/event_loop.rs": "vub/event_loop.rs",
        },
    },
}


class KaniResult:
    def __init__(self):
        self.harness = {}      # name -> dict(status, checks_total, checks_failed, failed_desc[], time_s, covers_unsat, playback)
        self.build_ok = True
        self.build_log = ""
        self.wall_s = 0.0
        self.cmd = ""
        self.injected = []
        self.missing_anchor = []


def _sync_repo(dst):
    os.makedirs(dst, exist_ok=True)
    subprocess.run(
        ["rsync", "-a", "--delete", "--exclude", "/target", "--exclude", ".git", REPO + "/", dst + "/"],
        check=True,
    )


def prepare_scratch(group, scratch):
    """copy working tree, inject harness modules. returns (injected list, missing list)"""
    g = GROUPS[group]
    _sync_repo(scratch)
    injected, missing = [], []
    for src, hfile in g["inject"].items():
        hpath = os.path.join(VERIF, "kani", hfile)
        if not os.path.exists(hpath):
            continue
        spath = os.path.join(scratch, g["crate"], src)
        if not os.path.exists(spath):
            missing.append(src)
            continue
        with open(spath, "a") as f:
            f.write('\n#[cfg(kani)]\n#[path = "%s"]\npub(crate) mod verif_kani;\n' % hpath)
        injected.append((src, hfile))
    # offline config
    os.makedirs(os.path.join(scratch, ".cargo"), exist_ok=True)
    with open(os.path.join(scratch, ".cargo", "config.toml"), "a") as f:
        f.write("\n[net]\noffline = true\n")
    return injected, missing


_H_START = re.compile(r"^Checking harness (\S+?)\.\.\.\s*$")
_SUMMARY = re.compile(r"^\s*\*\* (\d+) of (\d+) failed")
_COVER = re.compile(r"^\s*\*\* (\d+) of (\d+) cover properties satisfied")
_VERDICT = re.compile(r"^VERIFICATION:- (SUCCESSFUL|FAILED)")
_TIME = re.compile(r"^Verification Time: ([0-9.]+)s")
_FAILED_CHECK = re.compile(r"^Failed Checks: (.*)$")


def parse_kani_output(text):
    """Parses both the sequential format and the `-j N --output-format terse` format, where a
    line `Thread k: Checking harness X...` binds thread k to X and a line `Thread k: ` starts
    the (atomic) result block of that thread's current harness."""
    res = {}
    cur = None
    thread_h = {}
    lines = text.splitlines()
    i = 0
    _T = re.compile(r"^Thread (\d+): ?(.*)$")

    def new(name):
        res[name] = dict(status="UNKNOWN", checks_total=0, checks_failed=0, failed_desc=[],
                         time_s=0.0, covers_total=0, covers_sat=0, playback="")
    while i < len(lines):
        ln = lines[i]
        tm = _T.match(ln)
        if tm:
            t, rest = tm.group(1), tm.group(2)
            m = _H_START.match(rest)
            if m:
                name = m.group(1).split("::")[-1]
                thread_h[t] = name
                new(name)
                cur = None
            elif rest.strip() == "":
                cur = thread_h.get(t)
            i += 1
            continue
        m = _H_START.match(ln)
        if m:
            cur = m.group(1).split("::")[-1]
            new(cur)
            i += 1
            continue
        if cur:
            h = res[cur]
            m = _SUMMARY.match(ln)
            if m:
                h["checks_failed"], h["checks_total"] = int(m.group(1)), int(m.group(2))
            m = _COVER.match(ln)
            if m:
                h["covers_sat"], h["covers_total"] = int(m.group(1)), int(m.group(2))
            m = _VERDICT.match(ln)
            if m:
                h["status"] = m.group(1)
                if m.group(1) == "FAILED" and h["checks_total"] == 0 and not h["failed_desc"]:
                    h["status"] = "TIMEOUT"      # killed / crashed without a result: no verdict
            if ln.startswith("CBMC timed out") or "out of memory" in ln.lower():
                h["status"] = "TIMEOUT"
            m = _TIME.match(ln)
            if m:
                h["time_s"] = float(m.group(1))
            m = _FAILED_CHECK.match(ln)
            if m:
                d = m.group(1)
                if i + 1 < len(lines) and lines[i + 1].startswith(" File:"):
                    d += " @" + lines[i + 1].strip()
                h["failed_desc"].append(d)
            if ln.startswith("Concrete playback unit test for"):
                j = i + 1
                blk = []
                while j < len(lines) and not lines[j].startswith("```"):
                    j += 1
                j += 1
                while j < len(lines) and not lines[j].startswith("```"):
                    blk.append(lines[j]); j += 1
                h["playback"] = "\n".join(blk)
                i = j
        i += 1
    return res


def _rss_watchdog(limit_gb):
    """kills any cbmc process whose resident set exceeds the limit (the harness is then reported without a verdict:
    undecided, never an alarm); keeps a runaway query from taking the machine down (no swap here)"""
    import threading
    stop = threading.Event()

    def loop():
        while not stop.wait(3.0):
            try:
                out = subprocess.run(["ps", "-eo", "pid,rss,comm"], stdout=subprocess.PIPE, text=True).stdout
                for ln in out.splitlines()[1:]:
                    f = ln.split()
                    if len(f) >= 3 and f[2] == "cbmc" and int(f[1]) > limit_gb * 1024 * 1024:
                        subprocess.run(["kill", "-9", f[0]])
            except Exception:
                pass
    threading.Thread(target=loop, daemon=True).start()
    return stop


def run_group(group, harnesses, timeout_s=900, jobs=None, playback=False, extra_args=None,
              unwind=None, keep_scratch=False, log_path=None, harness_timeout_s=240, rss_limit_gb=10):
    """Run the given harnesses of a group against the current /repo working tree."""
    g = GROUPS[group]
    t0 = time.time()
    r = KaniResult()
    scratch = tempfile.mkdtemp(prefix="vhost-verif-kx-")
    repo_copy = os.path.join(scratch, "repo")
    try:
        r.injected, r.missing_anchor = prepare_scratch(group, repo_copy)
        os.makedirs(CACHE, exist_ok=True)
        target = os.path.join(CACHE, "kani-target-" + group)
        lockf = open(target + ".lock", "w")
        own_target = False
        try:
            fcntl.flock(lockf, fcntl.LOCK_EX | fcntl.LOCK_NB)
        except OSError:
            target = os.path.join(scratch, "target")
            own_target = True
        jobs = jobs or min(16, max(1, len(harnesses)))
        cmd = ["cargo", "kani", "--target-dir", target, "-Z", "function-contracts", "-Z", "stubbing",
               "-j", str(jobs), "--output-format", "terse"]
        if g["features"]:
            cmd += ["--features", g["features"]]
        cmd += ["-Z", "unstable-options", "--harness-timeout", "%ds" % harness_timeout_s]
        if playback:
            k = cmd.index("-j"); del cmd[k:k + 4]
            cmd += ["-Z", "concrete-playback", "--concrete-playback=print"]
        if extra_args:
            cmd += extra_args
        for h in harnesses:
            cmd += ["--harness", h]
        env = dict(os.environ)
        env["CARGO_NET_OFFLINE"] = "true"
        r.cmd = "cd <scratch copy of /repo>/%s && %s" % (g["crate"], " ".join(cmd))
        stop_watch = _rss_watchdog(rss_limit_gb)
        try:
            p = subprocess.run(cmd, cwd=os.path.join(repo_copy, g["crate"]), env=env,
                               stdout=subprocess.PIPE, stderr=subprocess.STDOUT, text=True,
                               timeout=timeout_s)
            out = p.stdout
            rc = p.returncode
        except subprocess.TimeoutExpired as e:
            out = (e.stdout or b"")
            if isinstance(out, bytes):
                out = out.decode("utf-8", "replace")
            out += "\n[kx] TIMEOUT after %ds\n" % timeout_s
            rc = -9
            subprocess.run(["pkill", "-x", "cbmc"]); subprocess.run(["pkill", "-x", "kani-driver"])
        stop_watch.set()
        if log_path:
            with open(log_path, "w") as f:
                f.write(out)
        r.build_log = out
        r.harness = parse_kani_output(out)
        if not r.harness and rc != 0:
            r.build_ok = False
        r.rc = rc
    finally:
        if not keep_scratch:
            shutil.rmtree(scratch, ignore_errors=True)
        else:
            r.scratch = scratch
    r.wall_s = time.time() - t0
    return r


if __name__ == "__main__":
    grp = sys.argv[1]
    hs = sys.argv[2:]
    res = run_group(grp, hs, log_path="/tmp/kx-last.log")
    for k, v in res.harness.items():
        print(k, v["status"], "%d/%d failed" % (v["checks_failed"], v["checks_total"]), "%.1fs" % v["time_s"],
              "covers %d/%d" % (v["covers_sat"], v["covers_total"]), v["failed_desc"][:3])
    if not res.harness:
        print(res.build_log[-3000:])
    print("wall %.1fs" % res.wall_s)
