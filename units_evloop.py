"""Verus unit `evloop`: VringEpollHandler::run (event_loop.rs) — the worker's epoll loop. For every sequence of batches epoll_wait
returns: each event with known bits is handed to handle_event exactly once, in order, with `data as u16` as its id (C11: no
returned kick is dropped; C17: the id is read as 16 bits); the loop returns Ok only after handle_event reported the exit event
and stops dispatching there (C16: a worker ends on its exit event). epoll_wait and handle_event are the boundary
(handle_event itself is a Kani obligation on the real code)."""
from vx import Unit, Source

EVL = "vhost-user-backend/src/event_loop.rs"


def build():
    u = Unit("evloop")
    evl = Source(EVL)
    u.raw("use vstd::prelude::*;\nverus! {\nglobal size_of usize == 8;   // A-ARITH: 64-bit target\n")
    u.env("evloop.rs")
    u.raw("impl VringEpollHandler {")
    u.extracted_fn(evl, "run", prefix="#[verifier::exec_allows_no_decreases_clause]\n",
                   sig_rw=[("R8", r'&self\b', '&mut self')],
                   body_rw=[("R19", r'vec!\[EpollEvent::new\(EventSet::empty\(\), 0\); EPOLL_EVENTS_LEN\]', 'events_buffer(EPOLL_EVENTS_LEN)'),
                            ("R8", r'self\.epoll\.wait\(-1, &mut events\[\.\.\]\)', 'self.epoll_wait(-1, &mut events)'),
                            ("R10", r'\bio::ErrorKind::', 'IoErrorKind::'),
                            ("R21", r'for event in events\.iter\(\)\.take\(num_events\) \{', 'let mut k = 0; while k < num_events { let event = &events[k]; k += 1;')],
                   loops=[dict(kind="loop", nth=0, text="""            invariant_except_break
                self.trace@ =~= old(self).trace@ + expected_all(self.polled@.subrange(old(self).polled@.len() as int, self.polled@.len() as int)),
            invariant
                events@.len() == 100, self.polled@.len() >= old(self).polled@.len(),
                self.polled@.subrange(0, old(self).polled@.len() as int) =~= old(self).polled@,
            ensures
                self.exit_seen@, self.polled@.len() > old(self).polled@.len(),
                self.polled@.subrange(0, old(self).polled@.len() as int) =~= old(self).polled@,
                exists|j: int| 0 <= j <= self.polled@.last().len() && self.trace@ =~= old(self).trace@
                    + expected_all(self.polled@.subrange(old(self).polled@.len() as int, self.polled@.len() - 1)) + #[trigger] expected_batch(self.polled@.last(), j),"""),
                          dict(kind="while", nth=0, text="""                invariant
                    events@.len() == 100, num_events <= 100, k <= num_events, self.polled@.len() == p0.len() + 1, p0.len() >= old(self).polled@.len(),
                    self.polled@.last() =~= events@.subrange(0, num_events as int), self.polled@.drop_last() =~= p0,
                    self.polled@.subrange(0, old(self).polled@.len() as int) =~= old(self).polled@,
                    self.trace@ =~= t0 + expected_batch(self.polled@.last(), k as int),
                    t0 =~= old(self).trace@ + expected_all(p0.subrange(old(self).polled@.len() as int, p0.len() as int)),""")],
                   hints=[(r"let num_events = match", "let ghost p0 = self.polled@; let ghost t0 = self.trace@;", "ghost"),
                          (r"let mut k = 0;", """assert(self.polled@.drop_last() =~= p0);
                assert(expected_batch(self.polled@.last(), 0) =~= Seq::empty());"""),
                          (r"let evset = match EventSet::from_bits", "assert(*event == self.polled@.last()[k - 1]); lemma_low16(event.data);"),
                          (r"\{\s*break 'epoll;\s*\}\s*\}", """assert(self.polled@.subrange(old(self).polled@.len() as int, self.polled@.len() as int).drop_last() =~= p0.subrange(old(self).polled@.len() as int, p0.len() as int));
            assert(self.polled@.subrange(old(self).polled@.len() as int, self.polled@.len() as int).last() == self.polled@.last());""", "after"),
                          (r"return Err\(VringEpollError::EpollWait\(e\)\);", """if self.polled@.len() > old(self).polled@.len() {
                        let s = self.polled@.subrange(old(self).polled@.len() as int, self.polled@.len() as int);
                        assert(s.drop_last() =~= self.polled@.subrange(old(self).polled@.len() as int, self.polled@.len() - 1)); assert(s.last() == self.polled@.last());
                    } else { assert(self.polled@.subrange(old(self).polled@.len() as int, self.polled@.len() as int) =~= Seq::empty()); }"""),
                          (r"if [^{;]*handle_event[^{;]*\{", "assert(self.polled@.subrange(old(self).polled@.len() as int, self.polled@.len() - 1) =~= p0.subrange(old(self).polled@.len() as int, p0.len() as int));", "after"),
                          (r"let ev_type = [^;]+;", """assert(expected_batch(self.polled@.last(), k as int) =~= expected_batch(self.polled@.last(), k - 1).push((ev_type, evset.bits)));
                assert(self.polled@.subrange(old(self).polled@.len() as int, self.polled@.len() - 1) =~= p0.subrange(old(self).polled@.len() as int, p0.len() as int));
                let ghost tr1 = self.trace@.push((ev_type, evset.bits));
                assert(tr1 =~= old(self).trace@ + expected_all(self.polled@.subrange(old(self).polled@.len() as int, self.polled@.len() - 1)) + expected_batch(self.polled@.last(), k as int));""", "after"),
                          ],
                   contract="""
        ensures
            self_frame(*old(self), *final(self)),
            r is Ok ==> final(self).exit_seen@, // [C16:worker-ends-on-exit-event] the loop ends with Ok only after handle_event reported the exit event
            final(self).polled@.len() >= old(self).polled@.len(),
            final(self).polled@.len() == old(self).polled@.len() ==> final(self).trace@ =~= old(self).trace@,
            final(self).polled@.len() > old(self).polled@.len() ==> exists|j: int| 0 <= j <= final(self).polled@.last().len() && final(self).trace@ =~= old(self).trace@
                + expected_all(final(self).polled@.subrange(old(self).polled@.len() as int, final(self).polled@.len() - 1)) + #[trigger] expected_batch(final(self).polled@.last(), j), // [C11:no-returned-event-dropped,C17:id-is-low-16-bits] every event epoll_wait returned (known bits) up to the stopping point is handed to handle_event exactly once, in order, with `data as u16` as its id""")
    u.raw("}")
    u.raw("fn main() {}\n} // verus!")
    return u
