#!/usr/bin/env python3
"""vx — extractor + Verus driver.

Extraction is mechanical and re-done from /repo's working tree on every run:
  * a small Rust-aware scanner (comments, strings, raw strings, chars vs lifetimes, brace
    matching) locates items by path and copies their source span VERBATIM;
  * a fixed list of token-level rewrite rules (R1..R12, see RULES) is applied, every firing is
    counted and reported in the evidence ("exactly what the extraction drops");
  * the spans are spliced into a unit template (verus/units/*.rs) at `//@extract` directives,
    together with the hand-written contract environment;
  * `verus unit.rs` is run and its diagnostics are mapped back to labelled obligations.
"""
import os, re, sys, json, hashlib, subprocess, time, tempfile, shutil

VERIF = os.path.dirname(os.path.abspath(__file__))
REPO = os.environ.get("VERIF_REPO", "/repo")


TOLERANT = False


class ExtractError(Exception):
    """lost anchor / unsupported construct: the run is UNDECIDED (exit 2), never an alarm"""


# ----------------------------------------------------------------------------- scanner
def code_mask(src):
    """mask[i] == True iff src[i] is code (not inside comment / string / char literal)."""
    n = len(src)
    mask = [True] * n
    i = 0
    while i < n:
        c = src[i]
        if c == '/' and i + 1 < n and src[i + 1] == '/':
            j = src.find('\n', i)
            j = n if j < 0 else j
            for k in range(i, j):
                mask[k] = False
            i = j
        elif c == '/' and i + 1 < n and src[i + 1] == '*':
            depth, j = 1, i + 2
            while j < n and depth:
                if src.startswith('/*', j):
                    depth += 1; j += 2
                elif src.startswith('*/', j):
                    depth -= 1; j += 2
                else:
                    j += 1
            for k in range(i, j):
                mask[k] = False
            i = j
        elif c == '"' or (c == 'b' and i + 1 < n and src[i + 1] == '"' and (i == 0 or not (src[i - 1].isalnum() or src[i - 1] == '_'))):
            j = i + (2 if c == 'b' else 1)
            while j < n and src[j] != '"':
                j += 2 if src[j] == '\\' else 1
            j += 1
            for k in range(i, min(j, n)):
                mask[k] = False
            i = j
        elif c == 'r' and (i == 0 or not (src[i - 1].isalnum() or src[i - 1] == '_')) and re.match(r'r#*"', src[i:i + 8]):
            m = re.match(r'r(#*)"', src[i:])
            close = '"' + m.group(1)
            j = src.find(close, i + len(m.group(0)))
            j = n if j < 0 else j + len(close)
            for k in range(i, j):
                mask[k] = False
            i = j
        elif c == "'":
            # char literal or lifetime
            m = re.match(r"'(\\.[^']*|[^'\\])'", src[i:i + 12])
            if m:
                j = i + len(m.group(0))
                for k in range(i, j):
                    mask[k] = False
                i = j
            else:
                i += 1
        else:
            i += 1
    return mask


def match_brace(src, mask, open_idx, open_ch='{', close_ch='}'):
    assert src[open_idx] == open_ch
    depth = 0
    for i in range(open_idx, len(src)):
        if not mask[i]:
            continue
        if src[i] == open_ch:
            depth += 1
        elif src[i] == close_ch:
            depth -= 1
            if depth == 0:
                return i
    raise ExtractError("unbalanced %s at %d" % (open_ch, open_idx))


def find_code(src, mask, pattern, start=0, end=None):
    """first regex match whose first char is code"""
    end = len(src) if end is None else end
    for m in re.finditer(pattern, src[:end]):
        if m.start() >= start and mask[m.start()]:
            return m
    return None


class Source:
    def __init__(self, relpath):
        self.relpath = relpath
        p = os.path.join(REPO, relpath)
        if not os.path.exists(p):
            raise ExtractError("lost anchor: file %s" % relpath)
        self.src = open(p).read()
        self.mask = code_mask(self.src)

    def impl_span(self, header_regex):
        """span (body_start, body_end) of the first `impl` block whose header matches"""
        for m in re.finditer(r'(?m)^\s*(?:unsafe\s+)?impl\b', self.src):
            if not self.mask[m.start()]:
                continue
            ob = self._next_code_char(m.end(), '{')
            header = self.src[m.start():ob]
            if re.search(header_regex, re.sub(r'\s+', ' ', header).strip()):
                cb = match_brace(self.src, self.mask, ob)
                return ob + 1, cb
        raise ExtractError("lost anchor: impl /%s/ in %s" % (header_regex, self.relpath))

    def _next_code_char(self, start, ch):
        for i in range(start, len(self.src)):
            if self.mask[i] and self.src[i] == ch:
                return i
            if self.mask[i] and ch == '{' and self.src[i] == ';':
                pass
        raise ExtractError("no %s after %d" % (ch, start))

    def fn_span(self, name, within=None, nth=0):
        """(item_start, sig_end(open brace idx), close brace idx) of `fn name` (nth occurrence) inside span"""
        lo, hi = within if within else (0, len(self.src))
        cnt = 0
        for m in re.finditer(r'\bfn\s+%s\b' % re.escape(name), self.src):
            if m.start() < lo or m.start() >= hi or not self.mask[m.start()]:
                continue
            # find the body's opening brace: first code '{' at paren/angle depth 0 after the signature,
            # or ';' (declaration without body -> skip)
            i = m.end()
            depth = 0
            ob = None
            while i < hi:
                if self.mask[i]:
                    ch = self.src[i]
                    if ch in '([':
                        depth += 1
                    elif ch in ')]':
                        depth -= 1
                    elif ch == ';' and depth == 0:
                        break
                    elif ch == '{' and depth == 0:
                        ob = i
                        break
                i += 1
            if ob is None:
                continue
            if cnt == nth:
                cb = match_brace(self.src, self.mask, ob)
                # item start: back up over `pub`, `pub(..)`, `unsafe`, `const`, `async` and attributes on the same item
                s = m.start()
                pre = re.search(r'((?:pub(?:\([^)]*\))?\s+)?(?:const\s+)?(?:unsafe\s+)?)$', self.src[lo:s])
                if pre:
                    s = lo + pre.start(1)
                return s, ob, cb
            cnt += 1
        raise ExtractError("lost anchor: fn %s in %s" % (name, self.relpath))

    def fn_body(self, name, within=None, nth=0):
        s, ob, cb = self.fn_span(name, within, nth)
        return self.src[ob + 1:cb]

    def fn_sig(self, name, within=None, nth=0):
        s, ob, cb = self.fn_span(name, within, nth)
        return self.src[s:ob].strip()

    def fn_item(self, name, within=None, nth=0):
        s, ob, cb = self.fn_span(name, within, nth)
        return self.src[s:cb + 1]

    def macro_block(self, macro, ident_regex):
        """body text of `macro! { ... }` whose body matches ident_regex (e.g. enum name)"""
        for m in re.finditer(r'\b%s!\s*\{' % re.escape(macro), self.src):
            if not self.mask[m.start()]:
                continue
            ob = m.end() - 1
            cb = match_brace(self.src, self.mask, ob)
            body = self.src[ob + 1:cb]
            if re.search(ident_regex, body):
                return body
        raise ExtractError("lost anchor: %s! /%s/ in %s" % (macro, ident_regex, self.relpath))

    def const_value(self, name):
        m = find_code(self.src, self.mask, r'\bconst\s+%s\s*:\s*[\w:]+\s*=\s*([^;]+);' % re.escape(name))
        if not m:
            raise ExtractError("lost anchor: const %s in %s" % (name, self.relpath))
        return m.group(1).strip()


def split_match_arms(body, match_head_regex):
    """Given fn body text, find `match <head> {` and return (prologue_text, [(pattern, arm_text, is_block)], epilogue_text).
    arm_text is the verbatim text of the arm expression (block contents without the outer braces if is_block)."""
    mask = code_mask(body)
    m = find_code(body, mask, match_head_regex)
    if not m:
        raise ExtractError("lost anchor: match head /%s/" % match_head_regex)
    ob = body.find('{', m.end() - 1)
    while not mask[ob]:
        ob = body.find('{', ob + 1)
    cb = match_brace(body, mask, ob)
    inner = body[ob + 1:cb]
    imask = mask[ob + 1:cb]
    arms = []
    i = 0
    n = len(inner)
    while i < n:
        # skip whitespace and comments
        while i < n and (inner[i].isspace() or not imask[i]) and not (not imask[i] and inner[i] in '"\''):
            i += 1
        if i >= n:
            break
        # attributes before the pattern (e.g. #[cfg(feature = "postcopy")])
        attrs = []
        while inner.startswith('#[', i):
            e = match_brace(inner, imask, i + 1, '[', ']')
            attrs.append(inner[i:e + 1])
            i = e + 1
            while i < n and (inner[i].isspace() or not imask[i]):
                i += 1
        # pattern up to `=>` at depth 0
        depth = 0
        j = i
        while j < n:
            if imask[j]:
                ch = inner[j]
                if ch in '([{':
                    depth += 1
                elif ch in ')]}':
                    depth -= 1
                elif ch == '=' and inner[j + 1] == '>' and depth == 0:
                    break
            j += 1
        if j >= n:
            break
        pat = inner[i:j].strip()
        k = j + 2
        while k < n and inner[k].isspace():
            k += 1
        if inner[k] == '{' and imask[k]:
            e = match_brace(inner, imask, k)
            arm = inner[k + 1:e]
            is_block = True
            k = e + 1
            # optional trailing comma
            while k < n and inner[k].isspace():
                k += 1
            if k < n and inner[k] == ',':
                k += 1
        else:
            depth = 0
            e = k
            while e < n:
                if imask[e]:
                    ch = inner[e]
                    if ch in '([{':
                        depth += 1
                    elif ch in ')]}':
                        depth -= 1
                    elif ch == ',' and depth == 0:
                        break
                e += 1
            arm = inner[k:e]
            is_block = False
            k = e + 1
        arms.append(dict(pattern=pat, text=arm, is_block=is_block, attrs=attrs))
        i = k
    return body[:m.start()], arms, body[cb + 1:]


# ----------------------------------------------------------------------------- rewrite rules
class Rewriter:
    """token-level rewrite rules; every firing is counted"""

    def __init__(self):
        self.fired = {}

    def _count(self, rule, n):
        if n:
            self.fired[rule] = self.fired.get(rule, 0) + n

    def sub(self, rule, pattern, repl, text, flags=0):
        new, n = re.subn(pattern, repl, text, flags=flags)
        self._count(rule, n)
        return new

    def drop_cfg_items(self, text, features=("xen", "postcopy")):
        """R2: statements/items under #[cfg(feature = "xen"|"postcopy")] dropped."""
        mask = code_mask(text)
        out = []
        i = 0
        n = len(text)
        pat = re.compile(r'#\[cfg\(feature\s*=\s*"(%s)"\)\]' % "|".join(features))
        while True:
            m = None
            for mm in pat.finditer(text, i):
                if mask[mm.start()]:
                    m = mm
                    break
            if not m:
                out.append(text[i:])
                break
            out.append(text[i:m.start()])
            # the annotated thing ends at the first `;` or balanced `{...}` (+ optional `,`) at depth 0
            j = m.end()
            depth = 0
            while j < n:
                if mask[j]:
                    ch = text[j]
                    if ch in '([':
                        depth += 1
                    elif ch in ')]':
                        depth -= 1
                        if depth < 0:      # annotated call argument / tail expression: ends before the closer
                            break
                    elif ch == '}' :
                        break              # annotated tail expression of a block
                    elif ch == ',' and depth == 0:
                        j += 1             # annotated struct field / call argument
                        break
                    elif ch == '{':
                        e = match_brace(text, mask, j)
                        j = e
                        if depth == 0:
                            j += 1
                            # swallow trailing comma of a match arm
                            k = j
                            while k < n and text[k].isspace():
                                k += 1
                            if k < n and text[k] == ',':
                                j = k + 1
                            break
                    elif ch == ';' and depth == 0:
                        j += 1
                        break
                j += 1
            self._count("R2", 1)
            i = j
        return "".join(out)

    def strip_comments(self, text):
        """R1: comments dropped (doc comments, line comments)"""
        mask = code_mask(text)
        out = []
        i = 0
        n = len(text)
        cnt = 0
        while i < n:
            if not mask[i] and text.startswith('//', i):
                j = text.find('\n', i)
                j = n if j < 0 else j
                i = j
                cnt += 1
            elif not mask[i] and text.startswith('/*', i):
                j = i
                while j < n and not mask[j]:
                    j += 1
                i = j
                cnt += 1
            else:
                out.append(text[i])
                i += 1
        self._count("R1", cnt)
        return "".join(out)

    def strip_attrs(self, text):
        """R1: outer attributes #[allow(..)], #[inline], #[cfg(not(feature="xen"))] dropped"""
        text = self.sub("R1", r'#\[(?:allow|inline|must_use|doc|deny|warn)[^\]]*\]\s*', '', text)
        text = self.sub("R2", r'#\[cfg\(not\(feature\s*=\s*"(?:xen|postcopy)"\)\)\]\s*', '', text)
        return text

    def common(self, text):
        text = self.drop_cfg_items(text)
        text = self.strip_comments(text)
        text = self.strip_attrs(text)
        return text


RULES = {
    "R1": "comments, doc comments and lint/inline attributes dropped",
    "R2": "items/statements under cfg(feature = xen|postcopy) dropped; cfg(not(..)) markers removed (default feature set)",
    "R3": "generic header parameter instantiated textually (FrontendReq / BackendReq / GpuBackendReq)",
    "R4": "enum_value!/bitflags! blocks re-emitted as plain enums / constant tables (values from the working tree)",
    "R5": "mem::size_of::<T>() -> size_of_T() environment function (sizes are Kani layout obligations)",
    "R6": "Result adapter closures (.map_err(|e| ..), .ok_or(E)) -> spec'd environment methods",
    "R7": "unsafe { ptr::read_unaligned(buf.as_ptr() as *const T) } -> read_unaligned_T(buf) environment stub whose REQUIRES is the in-bounds condition",
    "R8": "&self receivers of interior-mutability wrappers become &mut self in the generated wrapper",
    "R9": "format!/println!/error!/warn! statements dropped",
    "R10": "std::io::Error -> IoError, std::fs::File -> File (environment types)",
    "R11": "loop headers: `for x in e` -> `for x in it: e` with injected invariant; `proof { .. }` hint blocks inserted before a statement (overlay)",
    "R19": "iterator/slice adapter expressions of the I/O loops -> environment functions with the adapter's meaning as contract: `iovs.iter().map(|iov| iov.len()).collect()` -> iov_lens_of(iovs); `&iovs[k][off..]` -> slice_from(iovs[k], off); `[&[x], &iovs[(k + 1)..]].concat()` -> concat_tail(x, iovs, k + 1); `x += r` with r: &usize -> `x += *r`; `vec![0u8; n]` / `vec![0; N]` / `vec![E; N]` -> vec_zeroed / vec_fds_zeroed / events_buffer; `fd_array.iter().take(n).map(|fd| File::from_raw_fd(*fd)).collect()` -> wrap_fds(&fd_array, n); `dst.copy_from_slice(src)` on a FamStructWrapper -> fill_from / copy_to",
    "R20": "raw pointers are modelled by their address: `*mut c_void` -> usize; `unsafe fn` -> fn whose REQUIRES is the safety contract; `rbuf[k..].as_mut_ptr() as *mut c_void` -> tail_addr(&mut rbuf, k); `unsafe { write(fd, &m as *const T as *const c_void, size_of::<T>()) }` / `unsafe { ioctl_with_ptr(self, REQ(), p) }` -> recording stubs of the kernel interface",
    "R21": "`for (i, x) in v.iter().enumerate() {` -> `for i in 0..v.len() { let x = v[i];` (u64 elements, by value: operators on &u64 forward to u64) or `let x = &v[i];`",
    "R22": "`let mut v = Vec::new();` gets its element type written out (the invariants mention v before inference fixes it)",
    "R23": "Arc::new(x) -> arc_new(x) (shared immutable handle); thread::Builder..spawn(move || h.run()) -> spawn_worker(h) (opaque)",
    "R24": "`for (a, b) in xs.iter().zip(ys) {` (ys: Vec by value) -> `for a in xs.iter() { let b = match zip_next(&mut ys) { Some(b) => b, None => break };` (zip's own evaluation order)",
    "R25": "bindgen idioms: `T { type_: X, ..Default::default() }` -> T_with_type(X) (all-zero default); `e as u8` on a fieldless repr(u8) enum -> named conversion whose table is a Kani layout obligation",
    "R26": "match arm `P(A | B) if g => e,` -> two consecutive arms `P(A) if g => e, P(B) if g => e,`",
    "R27": "`x |= Flags::CONST;` on a bitflags value -> `x = x | Flags::CONST;`",
    "R12": "Some(&[fd.as_raw_fd()]) -> fds1(&fd) (one-element descriptor list lent from a File)",
}


# ----------------------------------------------------------------------------- verus driver
class VerusResult:
    def __init__(self):
        self.ok = False
        self.verified = 0
        self.errors = 0
        self.diags = []        # dicts: message, line, text, label, fn, kind
        self.vir_error = False
        self.time_ms = 0
        self.smt_ms = 0
        self.raw_stdout = ""
        self.raw_stderr = ""
        self.cmd = ""
        self.path = ""
        self.undecided = None  # reason string when the tool could not decide


_LABEL = re.compile(r'//\s*\[([A-Z0-9,: _a-z\-\.]+)\]')


def run_verus(path, rlimit=None, extra=None, timeout=600):
    r = VerusResult()
    r.path = path
    cmd = ["verus", path, "--output-json", "--time", "--error-format=json", "--multiple-errors", "8"]
    if rlimit:
        cmd += ["--rlimit", str(rlimit)]
    if extra:
        cmd += extra
    r.cmd = " ".join(cmd)
    t0 = time.time()
    try:
        p = subprocess.run(cmd, stdout=subprocess.PIPE, stderr=subprocess.PIPE, text=True, timeout=timeout,
                           cwd=os.path.dirname(path))
    except subprocess.TimeoutExpired:
        r.undecided = "verus timeout after %ds" % timeout
        return r
    r.raw_stdout, r.raw_stderr = p.stdout, p.stderr
    # stdout: JSON object (possibly preceded by other lines)
    try:
        js = json.loads(p.stdout[p.stdout.index('{'):])
        vr = js.get("verification-results", {})
        r.verified = vr.get("verified", 0)
        r.errors = vr.get("errors", 0)
        r.ok = bool(vr.get("success"))
        r.vir_error = bool(vr.get("encountered-vir-error"))
        tm = js.get("times-ms", {})
        r.time_ms = tm.get("total", int((time.time() - t0) * 1000))
        r.smt_ms = tm.get("smt", {}).get("total", 0)
        r.func_details = list(js.get("func-details", {}).keys())
    except (ValueError, KeyError):
        r.undecided = "verus produced no JSON result (crash or front-end error)"
    src_lines = open(path).read().splitlines()
    for ln in p.stderr.splitlines():
        ln = ln.strip()
        if not ln.startswith('{'):
            continue
        try:
            d = json.loads(ln)
        except ValueError:
            continue
        if d.get("level") != "error" or not d.get("spans"):
            continue
        code = (d.get("code") or {}).get("code") if isinstance(d.get("code"), dict) else None
        prim = [s for s in d["spans"] if s.get("is_primary")] or d["spans"]
        sp = prim[0]
        line = sp["line_start"]
        text = src_lines[line - 1] if 0 < line <= len(src_lines) else ""
        # label: on the primary span's lines, else on any other span's line
        label = None
        for s in prim + d["spans"]:
            for L in range(s["line_start"], s["line_end"] + 1):
                if 0 < L <= len(src_lines):
                    m = _LABEL.search(src_lines[L - 1])
                    if m:
                        label = m.group(1)
                        break
            if label:
                break
        # enclosing function: nearest preceding `fn name`
        fn = None
        for L in range(line, 0, -1):
            m = re.search(r'\bfn\s+(\w+)', src_lines[L - 1])
            if m:
                fn = m.group(1)
                break
        r.diags.append(dict(message=d["message"], line=line, text=text.strip(), label=label, fn=fn, code=code,
                            rendered=d.get("rendered", ""), all_lines=sorted(set(s["line_start"] for s in d["spans"]))))
    if not r.ok and not r.diags and r.undecided is None:
        r.undecided = "verus failed without a verification diagnostic"
    # front-end (rustc / VIR) errors are 'undecided', not violations
    for d in r.diags:
        if d.get("code") in BORROW_CODES:
            continue      # handled by the engine (lock re-entry under the R8 guard encoding)
        if not any(k in d["message"] for k in VERIFICATION_MESSAGES):
            r.undecided = "non-verification error from verus: %s (line %d)" % (d["message"], d["line"])
    return r


# rustc borrow-check errors: in units that encode a lock guard as `&mut` borrow of the owner (R8), taking the lock a second time
# while the first guard is alive is exactly such an error
BORROW_CODES = ("E0499", "E0502", "E0500", "E0501", "E0503", "E0506")

VERIFICATION_MESSAGES = (
    "postcondition not satisfied", "precondition not satisfied", "assertion failed",
    "invariant not satisfied", "possible arithmetic underflow/overflow", "possible division by zero",
    "index out of bounds", "possible bit shift underflow/overflow", "recommendation not met",
    "decreases not satisfied", "could not prove termination", "loop invariant",
    "unreachable", "call to non-total", "unwrap", "Resource limit", "rlimit",
    "failed this", "might not be allowed", "possible truncation", "not satisfied",
)


def sha(s):
    return hashlib.sha256(s.encode()).hexdigest()[:16]


# ----------------------------------------------------------------------------- unit builder
def safe_int(expr):
    """evaluate a simple integer constant expression from a bitflags!/enum_value! block"""
    e = expr.strip().replace('_', '')
    e = re.sub(r'(?<![\w])(\d+|0x[0-9a-fA-F]+)(u8|u16|u32|u64|usize)\b', r'\1', e)
    if not re.fullmatch(r'[0-9a-fA-FxX\s<>|&()+\-*~!]+', e):
        raise ExtractError("unsupported constant expression: %s" % expr)
    return e


def parse_enum_value(block):
    """enum_value! { ... pub enum NAME: T { A = 1, ... } } -> (name, type, [(variant, value)])"""
    rw = Rewriter()
    b = rw.strip_comments(block)
    b = re.sub(r'#\[[^\]]*\]', '', b)
    m = re.search(r'enum\s+(\w+)\s*:\s*(\w+)\s*\{(.*)\}', b, re.S)
    if not m:
        raise ExtractError("cannot parse enum_value! block")
    name, ty, body = m.group(1), m.group(2), m.group(3)
    vals = []
    for ent in body.split(','):
        ent = ent.strip()
        if not ent:
            continue
        mm = re.fullmatch(r'(\w+)\s*=\s*(.+)', ent, re.S)
        if not mm:
            raise ExtractError("enum variant without value: %s" % ent)
        vals.append((mm.group(1), int(eval(safe_int(mm.group(2)), {"__builtins__": {}}))))
    return name, ty, vals


def gen_req_enum(name, vals, is_req=True):
    """R4: plain enum + Req impl with the values read from the working tree"""
    out = ["#[derive(Clone, Copy, PartialEq, Eq)]", "#[allow(non_camel_case_types)]",
           "pub enum %s { %s }" % (name, ", ".join("%s = %d" % (v, n) for v, n in vals))]
    tf = " else ".join("if v == %d { Some(%s::%s) }" % (n, name, v) for v, n in vals) + " else { None }"
    cd = ", ".join("%s::%s => %du32" % (name, v, n) for v, n in vals)
    if is_req:
        out.append("impl Req for %s {\n    open spec fn spec_try_from(v: u32) -> Option<Self> { %s }\n    open spec fn code(self) -> u32 { match self { %s } }\n}" % (name, tf, cd))
    else:
        out.append("impl %s {\n    pub open spec fn spec_try_from(v: u32) -> Option<Self> { %s }\n    pub open spec fn code(self) -> u32 { match self { %s } }\n}" % (name, tf, cd))
    return "\n".join(out) + "\n"


def parse_bitflags(block):
    rw = Rewriter()
    b = rw.strip_comments(block)
    b = re.sub(r'#\[[^\]]*\]', '', b)
    m = re.search(r'struct\s+(\w+)\s*:\s*(\w+)\s*\{(.*)\}', b, re.S)
    if not m:
        raise ExtractError("cannot parse bitflags! block")
    name, ty, body = m.group(1), m.group(2), m.group(3)
    bits = {"u8": 8, "u16": 16, "u32": 32, "u64": 64}[ty]
    vals = []
    for mm in re.finditer(r'const\s+(\w+)\s*=\s*([^;]+);', body):
        e = safe_int(mm.group(2)).replace('!', '~')
        vals.append((mm.group(1), int(eval(e, {"__builtins__": {}})) & ((1 << bits) - 1)))
    return name, ty, vals


def name_return(sig):
    """`-> T` => `-> (r: T)` in a fn signature (top-level arrow only)"""
    depth = 0
    i = 0
    arrow = -1
    while i < len(sig) - 1:
        c = sig[i]
        if c in '(<[':
            depth += 1
        elif c in ')>]':
            if not (c == '>' and i > 0 and sig[i - 1] == '-'):
                depth -= 1
        if sig[i:i + 2] == '->' and depth == 0:
            arrow = i
        i += 1
    if arrow < 0:
        return sig
    head, ret = sig[:arrow], sig[arrow + 2:].strip()
    where = ""
    m = re.search(r'\bwhere\b', ret)
    if m:
        where = " " + ret[m.start():]
        ret = ret[:m.start()].strip()
    return "%s-> (r: %s)%s" % (head, ret, where)


def inject_loop_invariants(body, invs):
    """R11: nth `for PAT in EXPR {` -> `for PAT in it: EXPR invariant ... {`; nth `while COND {` -> adds invariant.
    invs: list of dicts {kind: 'for'|'while', nth: int, iter: 'it', text: 'invariant ...'}"""
    for inv in invs:
        mask = code_mask(body)
        kind = inv["kind"]
        cnt = -1
        found = False
        for m in re.finditer(r'\b%s\b' % kind, body):
            if not mask[m.start()]:
                continue
            # a `for` that is part of `impl .. for` cannot occur inside a fn body; fine
            cnt += 1
            if cnt != inv.get("nth", 0):
                continue
            # opening brace of the loop body: first code '{' at depth 0 after the header
            i = m.end()
            depth = 0
            while i < len(body):
                if mask[i]:
                    ch = body[i]
                    if ch in '([':
                        depth += 1
                    elif ch in ')]':
                        depth -= 1
                    elif ch == '{' and depth == 0:
                        break
                i += 1
            header = body[m.end():i]
            if kind == 'for':
                mm = re.match(r'(\s+.+?\s+in\s+)(.+)$', header, re.S)
                if not mm:
                    raise ExtractError("cannot parse for-loop header: %s" % header)
                header = "%s%s: %s" % (mm.group(1), inv.get("iter", "it"), mm.group(2).rstrip())
            body = body[:m.end()] + header.rstrip() + "\n" + inv["text"] + "\n" + body[i:]
            found = True
            break
        if not found:
            raise ExtractError("lost anchor: %s loop #%d for invariant injection" % (kind, inv.get("nth", 0)))
    return body


class Unit:
    def __init__(self, name):
        self.name = name
        self.parts = []
        self.rw = Rewriter()
        self.spans = []          # (relpath, item, sha)
        self.functions = []      # names of extracted functions (for obligation counting)
        self.scans = []          # syntactic frame conditions on extracted text: (props, name, ok, description)

    def scan(self, props, name, ok, desc, on_fail="violation"):
        # on_fail="undecided": an ANCHOR on the exact text of a construct neither verifier can reach; a mismatch means the
        # argument no longer applies (exit 2), not that the property is violated
        """a syntactic obligation on the extracted text (e.g. "the log is written only through fetch_or"); reported in
        the evidence under engine `scan`, never presented as a solver-discharged proof"""
        self.scans.append((props, name, bool(ok), desc, on_fail))

    def raw(self, text):
        self.parts.append(text)

    def env(self, fname):
        self.parts.append(open(os.path.join(VERIF, "verus", "env", fname)).read())

    def rewrite_body(self, text, extra=None):
        rw = self.rw
        text = rw.common(text)
        # R9
        text = rw.sub("R9", r'(?m)^\s*(?:println|eprintln|error|warn|info|debug|trace)!\([^;]*\);\s*$', '', text)
        # R5
        text = rw.sub("R5", r'\b(?:std::|core::)?mem::size_of::<([\w<>:, ]+?)>\(\)', r'size_of_::<\1>()', text)
        # R7
        text = rw.sub("R7", r'unsafe\s*\{\s*(?:std::|core::)?ptr::read_unaligned\(\s*(\w+)\.as_ptr\(\)\s*as\s*\*const\s*([\w<>]+)\s*\)\s*\}',
                      r'read_unaligned_::<\2>(\1)', text)
        text = rw.sub("R7", r'unsafe\s*\{\s*&\*\(\s*(\w+)\.as_ptr\(\)\s*as\s*\*const\s*(\w+)\s*\)\s*\}', r'ref_cast_::<\2>(\1)', text)
        text = rw.sub("R7", r'unsafe\s*\{\s*slice::from_raw_parts\(\s*(\w+)\.as_ptr\(\)\.add\((\w+)\)\s*as\s*\*const\s*(\w+)\s*,\s*([^,]+?)\s*,?\s*\)\s*\}',
                      r'slice_cast_::<\3>(\1, \2, \4)', text)
        # R13
        text = rw.sub("R13", r'unsafe\s*\{\s*UnixStream::from_raw_fd\(\s*(\w+)\.into_raw_fd\(\)\s*\)\s*\}', r'unix_stream_from_file(\1)', text)
        # R10
        text = rw.sub("R10", r'\bstd::io::Error\b', 'IoError', text)
        text = rw.sub("R10", r'\bstd::fs::File\b', 'File', text)
        # R12
        text = rw.sub("R12", r'Some\(\s*&\[\s*(\w+)\.as_raw_fd\(\)\s*\]\s*\)', r'fds1(&\1)', text)
        text = rw.sub("R12", r'Some\(\s*&\[\s*(\w+\.into_raw_fd\(\))\s*\]\s*\)', r'fd_slice1(\1)', text)
        for (rule, pat, rep) in (extra or []):
            text = rw.sub(rule, pat, rep, text, flags=re.S)
        # R27: `x |= FlagsType::CONST;` on a bitflags value -> `x = x | FlagsType::CONST;` (BitOrAssign of bitflags = BitOr + assignment)
        text = rw.sub("R27", r'(?m)^(\s*)([\w\.]+)\s*\|=\s*(VhostUser\w+::\w+)\s*;', r'\1\2 = \2 | \3;', text)
        # R26: `P(.. A | B ..) if g => e,` -> two arms with the same guard and body (Verus rejects or-pattern + guard in one arm)
        text = rw.sub("R26", r'(?P<pre>\b[\w:]+\((?:\s*[\w:]+\()*)\s*(?P<a>[\w:]+(?:\([^()|]*\))?)\s*\|\s*(?P<b>[\w:]+(?:\([^()|]*\))?),?\s*(?P<post>\)+)\s*if\s+(?P<g>[^=]+?)\s*=>\s*(?P<e>[^,{]+),',
                      lambda m: "%s%s%s if %s => %s,\n            %s%s%s if %s => %s," % (m.group('pre'), m.group('a'), m.group('post'), m.group('g'), m.group('e'),
                                                                                  m.group('pre'), m.group('b'), m.group('post'), m.group('g'), m.group('e')), text)
        # R6: errno constants of the libc crate (Linux values)
        errno = {"EPERM": 1, "ENOENT": 2, "EINTR": 4, "EWOULDBLOCK": 11, "EIO": 5, "EBADF": 9, "EAGAIN": 11, "ENOMEM": 12, "EACCES": 13, "EFAULT": 14, "EBUSY": 16, "EEXIST": 17,
                 "EINVAL": 22, "EPIPE": 32, "ENOSYS": 38, "EPROTO": 71, "ENOTSUP": 95, "ECONNRESET": 104, "ENOBUFS": 105}
        def _errno(m):
            if m.group(1) not in errno:
                raise ExtractError("unsupported construct: libc::%s has no entry in the errno table of rule R6" % m.group(1))
            return "%di32" % errno[m.group(1)]
        text = rw.sub("R6", r'\blibc::(E[A-Z]+)\b', _errno, text)
        return text

    def extracted_fn(self, src, fn, within=None, nth=0, contract="", sig_rw=None, body_rw=None, loops=None,
                     rename=None, prefix="", proof_prologue="", keep_sig=True, hints=None):
        if TOLERANT:
            # scan-only rebuild after an extraction error: keep going so that the syntactic obligations registered by the
            # unit can still be evaluated (the unit itself stays undecided)
            try:
                return self._extracted_fn(src, fn, within, nth, contract, sig_rw, body_rw, loops, rename, prefix, proof_prologue, keep_sig, hints)
            except ExtractError as e:
                self.extract_errors = getattr(self, "extract_errors", []) + [str(e)]
                return None
        return self._extracted_fn(src, fn, within, nth, contract, sig_rw, body_rw, loops, rename, prefix, proof_prologue, keep_sig, hints)

    def _extracted_fn(self, src, fn, within=None, nth=0, contract="", sig_rw=None, body_rw=None, loops=None,
                      rename=None, prefix="", proof_prologue="", keep_sig=True, hints=None):
        s, ob, cb = src.fn_span(fn, within, nth)
        item = src.src[s:cb + 1]
        sig = src.src[s:ob].strip()
        body = src.src[ob + 1:cb]
        self.spans.append((src.relpath, fn, sha(item)))
        sig = self.rw.strip_comments(sig)
        sig = re.sub(r'\bpub(\([^)]*\))?\s+', '', sig)
        sig = self.rw.sub("R10", r'\bstd::io::Error\b', 'IoError', sig)
        sig = self.rw.sub("R10", r'\bstd::fs::File\b', 'File', sig)
        for (rule, pat, rep) in (sig_rw or []):
            sig = self.rw.sub(rule, pat, rep, sig, flags=re.S)
        sig = name_return(sig)
        if rename:
            sig = re.sub(r'\bfn\s+%s\b' % re.escape(fn), 'fn ' + rename, sig, count=1)
        body = self.rewrite_body(body, body_rw)
        name = rename or fn
        # closures that carry no specification (`|x| expr` not produced by a rewrite rule, which always writes `-> (o: T)`):
        # Verus cannot reason about their results; the engine turns a failed obligation in such a function into "undecided"
        cl = re.findall(r'(?:[(,=]|\bmove)\s*(\|[^|\n]{0,60}\|)(?!\s*->\s*\()', body)   # rule-generated closures are written `|..| -> (o: T) ..`
        cl = [c for c in cl if not re.search(r'\|\s*\|', c) or True]
        if cl:
            if not hasattr(self, "opaque_closures"):
                self.opaque_closures = {}
            self.opaque_closures[name] = "; ".join(sorted(set(cl)))[:120]
        if loops:
            body = inject_loop_invariants(body, loops)
        for h in (hints or []):
            # proof hints keyed by a statement regex: a `proof { .. }` block is inserted BEFORE the statement
            # (or AFTER it when the third element is "after")
            pat, proof = h[0], h[1]
            mm = re.search(pat, body)
            if not mm:
                raise ExtractError("lost anchor: statement /%s/ for a proof hint in %s" % (pat, fn))
            mode = h[2] if len(h) > 2 else "before"
            at = mm.end() if mode == "after" else mm.start()
            # mode "ghost": a ghost statement (`let ghost v = ..;`) inserted verbatim, visible to later invariants/hints
            ins = proof if mode == "ghost" else "proof { " + proof + " }"
            body = body[:at] + "\n        " + ins + "\n        " + body[at:]
            self.rw._count("R11", 1)
        name = rename or fn
        self.functions.append(name)
        self.parts.append("//@begin-extracted %s::%s\n%s%s\n%s\n{%s%s}\n//@end-extracted\n" % (
            src.relpath, fn, prefix, sig, contract.rstrip(), proof_prologue, body))

    def text(self):
        return "\n".join(self.parts)
