#!/bin/bash
# offline setup: check the pre-installed tools and warm the Kani dependency cache (optional; checks work without it)
set -u
cd "$(dirname "$0")"
export CARGO_NET_OFFLINE=true
verus --version >/dev/null 2>&1 || { echo "verus missing"; exit 1; }
cargo kani --version >/dev/null 2>&1 || { echo "kani missing"; exit 1; }
mkdir -p .cache scratch replay evidence
# warm the per-group Kani target directories with one trivial harness each (failures here are not fatal)
python3 - <<'PY' || true
import kx
for grp, h in (("vhost", "c20_memory_valid"), ("kern", "c19_binding_request_numbers"), ("vub", "c15_page_arith")):
    try:
        r = kx.run_group(grp, [h], timeout_s=900)
        print("warm", grp, {k: v["status"] for k, v in r.harness.items()})
    except Exception as e:
        print("warm", grp, "skipped:", e)
PY
exit 0
