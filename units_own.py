"""Scan unit `own` (C09): descriptor ownership leaves Rust's RAII (A-AFFINE: a File / OwnedFd / UnixStream / EventFd is closed
exactly once, when dropped) only at `into_raw_fd()` / `from_raw_fd()` / forget-like constructs. The proofs of C09 cover the sites
listed below (each with the obligation that decides it); this unit checks, on the non-test text of both crates, that
  (1) every `.into_raw_fd()` is the direct argument of a `from_raw_fd(..)` (ownership moves from one RAII wrapper into another
      within one expression), except the sites in ALLOW_INTO;
  (2) the functions containing `from_raw_fd(` are exactly the registered ones;
  (3) there is no mem::forget / ManuallyDrop / Box::leak / into_raw( in non-test code.
A new or removed site means the case analysis behind C09 no longer matches the code. Syntactic obligations (engine `scan`)."""
import re, os
from vx import Unit, Source, code_mask

FILES = ["vhost/src/vhost_user/connection.rs", "vhost/src/vhost_user/backend_req_handler.rs", "vhost/src/vhost_user/frontend_req_handler.rs",
         "vhost/src/vhost_user/frontend.rs", "vhost/src/vhost_user/backend_req.rs", "vhost/src/vhost_user/gpu_backend_req.rs",
         "vhost/src/vhost_user/backend.rs", "vhost/src/vhost_user/message.rs", "vhost/src/vhost_user/mod.rs",
         "vhost-user-backend/src/handler.rs", "vhost-user-backend/src/vring.rs", "vhost-user-backend/src/event_loop.rs",
         "vhost-user-backend/src/lib.rs", "vhost-user-backend/src/backend.rs", "vhost-user-backend/src/bitmap.rs"]
# (file, function) -> what decides the site
FROM_SITES = {
    ("vhost/src/vhost_user/connection.rs", "from_raw_fd"): "Listener::from_raw_fd: constructor taking ownership of the caller's descriptor (its safety contract)",
    ("vhost/src/vhost_user/connection.rs", "recv_into_iovec"): "verus chunk recv_into_iovec [C09:wrap-each-once] + kani c09_recv_into_iovec_wraps_each_fd_once_bounded",
    ("vhost/src/vhost_user/backend_req_handler.rs", "set_backend_req_fd"): "kani c09_set_backend_req_fd_ledger (File -> UnixStream, same descriptor, closed once)",
    ("vhost/src/vhost_user/backend_req_handler.rs", "set_gpu_socket"): "kani c09_set_gpu_socket_ledger",
    ("vhost-user-backend/src/vring.rs", "set_kick"): "kani c09_vring_fd_ownership (File -> EventConsumer)",
    ("vhost-user-backend/src/vring.rs", "set_call"): "kani c09_vring_fd_ownership (File -> EventNotifier)",
    ("vhost-user-backend/src/vring.rs", "set_err"): "kani c09_vring_fd_ownership (File -> EventConsumer)",
    ("vhost-user-backend/src/handler.rs", "postcopy_advice"): "cfg(feature = postcopy): outside the verified feature set (A-FEATURES)",
}
ALLOW_INTO = {
    ("vhost-user-backend/src/event_loop.rs", "new"): "the worker's own exit-event consumer (not a received descriptor): handed to epoll for the worker's lifetime",
}


def non_test(src_text):
    m = re.search(r'#\[cfg\(test\)\]\s*(?:pub\s+)?mod\s+\w+\s*\{', src_text)
    return src_text[:m.start()] if m else src_text


def enclosing_fn(text, pos):
    best = None
    for m in re.finditer(r'\bfn\s+(\w+)', text[:pos]):
        best = m.group(1)
    return best


def build():
    u = Unit("own")
    u.no_verus = True
    found_from, bad_into, forget = set(), [], []
    for f in FILES:
        try:
            src = Source(f)
        except Exception:
            continue
        text = u.rw.strip_comments(non_test(src.src))
        u.spans.append((f, "<non-test text>", __import__("vx").sha(text)))
        for m in re.finditer(r'\bfrom_raw_fd\s*\(', text):
            if re.search(r'\bfn\s+$', text[:m.start()]):
                continue   # the definition of a from_raw_fd method itself
            found_from.add((f, enclosing_fn(text, m.start())))
        for m in re.finditer(r'\.into_raw_fd\s*\(\s*\)', text):
            before = text[max(0, m.start() - 80):m.start()]
            paired = re.search(r'from_raw_fd\s*\(\s*[\w\.]+$', before) is not None
            fn = enclosing_fn(text, m.start())
            if not paired and (f, fn) not in ALLOW_INTO:
                bad_into.append("%s::%s" % (f, fn))
        for m in re.finditer(r'\bmem::forget\s*\(|\bManuallyDrop\b|\bBox::leak\s*\(|\.into_raw\s*\(', text):
            forget.append("%s::%s" % (f, enclosing_fn(text, m.start())))
    u.functions = []
    u.scan(["C09"], "every_into_raw_fd_is_rewrapped", not bad_into,
           "every `.into_raw_fd()` in non-test code is the direct argument of a `from_raw_fd(..)` (the descriptor never exists unowned); offending: %s" % (sorted(set(bad_into)) or "none"))
    missing = sorted("%s::%s" % k for k in set(FROM_SITES) - found_from if "postcopy" not in FROM_SITES[k])
    extra = sorted("%s::%s" % k for k in found_from - set(FROM_SITES))
    u.scan(["C09"], "from_raw_fd_sites_are_the_registered_ones", not extra and not missing,
           "the functions that wrap a raw descriptor (`from_raw_fd(`) are exactly the ones whose ownership transfer is proved; unregistered: %s; missing: %s" % (extra or "none", missing or "none"))
    u.scan(["C09"], "no_forget_like_constructs", not forget,
           "no mem::forget / ManuallyDrop / Box::leak / into_raw( in non-test code (nothing escapes drop); found in: %s" % (sorted(set(forget)) or "none"))
    u.site_table = dict(("%s::%s" % k, v) for k, v in list(FROM_SITES.items()) + list(ALLOW_INTO.items()))
    return u
