"""Scan unit `own` (C09): descriptor ownership leaves Rust's RAII (A-AFFINE: a File / OwnedFd / UnixStream / EventFd is closed
exactly once, when dropped) only at `into_raw_fd()` / `from_raw_fd()` / forget-like constructs. On the non-test text of both crates:
  (1) every `.into_raw_fd()` is re-wrapped: it is the direct argument of a `from_raw_fd(..)`, or it is bound to a name that is passed
      to `from_raw_fd` exactly once later in the same function (violation otherwise: a raw descriptor that nobody owns is a leak),
      except the sites in ALLOW_INTO;
  (2) every other `from_raw_fd(x)` (x not such a re-wrap) is a registered site with the obligation that decides it (a new one makes
      C09 undecided: the case analysis does not cover it);
  (3) there is no mem::forget / ManuallyDrop / Box::leak / into_raw( in non-test code.
Syntactic obligations (engine `scan`), not solver-discharged."""
import re, os
from vx import Unit, Source, code_mask

FILES = ["vhost/src/vhost_user/connection.rs", "vhost/src/vhost_user/backend_req_handler.rs", "vhost/src/vhost_user/frontend_req_handler.rs",
         "vhost/src/vhost_user/frontend.rs", "vhost/src/vhost_user/backend_req.rs", "vhost/src/vhost_user/gpu_backend_req.rs",
         "vhost/src/vhost_user/backend.rs", "vhost/src/vhost_user/message.rs", "vhost/src/vhost_user/mod.rs",
         "vhost-user-backend/src/handler.rs", "vhost-user-backend/src/vring.rs", "vhost-user-backend/src/event_loop.rs",
         "vhost-user-backend/src/lib.rs", "vhost-user-backend/src/backend.rs", "vhost-user-backend/src/bitmap.rs"]
# `from_raw_fd(ARG)` sites whose ARG is NOT an `into_raw_fd()` re-wrap: (file, function, ARG) -> what decides the site
RAW_WRAPS = {
    ("vhost/src/vhost_user/connection.rs", "from_raw_fd", "fd"): "Listener::from_raw_fd: constructor taking ownership of the caller's descriptor (its safety contract)",
    ("vhost/src/vhost_user/connection.rs", "recv_into_iovec", "*fd"): "verus chunk recv_into_iovec [C09:wrap-each-once] + kani c09_recv_into_iovec_wraps_each_fd_once_bounded",
    ("vhost-user-backend/src/handler.rs", "postcopy_advice", "uffd_dup"): "cfg(feature = postcopy): outside the verified feature set (A-FEATURES)",
}
# RAII -> RAII re-wraps `T::from_raw_fd(x.into_raw_fd())` keep the descriptor owned at every point and need no registration; the ones
# on received descriptors are additionally ledger-checked by Kani (c09_set_backend_req_fd_ledger, c09_set_gpu_socket_ledger,
# c09_vring_fd_ownership)
ALLOW_INTO = {
    ("vhost-user-backend/src/event_loop.rs", "new"): "the worker's own exit-event consumer (not a received descriptor): handed to epoll for the worker's lifetime",
}


def non_test(src_text):
    m = re.search(r'#\[cfg\(test\)\]\s*(?:pub\s+)?mod\s+\w+\s*\{', src_text)
    return src_text[:m.start()] if m else src_text


def enclosing_fn(text, pos):
    best = None
    for m in re.finditer(r'\bfn\s+(\w+)', text[:pos]):
        best = m.group(1)
    return best


def fn_extent(text, pos):
    """(start, end) of the body of the function enclosing pos (brace matching on comment-free text)"""
    best = None
    for m in re.finditer(r'\bfn\s+\w+', text[:pos]):
        best = m
    if not best:
        return 0, len(text)
    ob = text.find('{', best.end())
    depth, k = 0, ob
    while k < len(text):
        if text[k] == '{':
            depth += 1
        elif text[k] == '}':
            depth -= 1
            if depth == 0:
                break
        k += 1
    return ob, k


def call_arg(text, open_paren):
    depth, k = 0, open_paren
    while k < len(text):
        if text[k] == '(':
            depth += 1
        elif text[k] == ')':
            depth -= 1
            if depth == 0:
                return re.sub(r'\s+', '', text[open_paren + 1:k])
        k += 1
    return ""


def build():
    u = Unit("own")
    u.no_verus = True
    bad_into, unreg_wraps, forget = [], [], []
    for f in FILES:
        try:
            src = Source(f)
        except Exception:
            continue
        text = u.rw.strip_comments(non_test(src.src))
        u.spans.append((f, "<non-test text>", __import__("vx").sha(text)))
        rewrapped_ids = set()
        for m in re.finditer(r'\.into_raw_fd\s*\(\s*\)', text):
            fn = enclosing_fn(text, m.start())
            before = text[max(0, m.start() - 120):m.start()]
            if re.search(r'from_raw_fd\s*\(\s*[\w\.]+$', before):
                continue                                     # direct re-wrap
            lm = re.search(r'let\s+(?:mut\s+)?(\w+)\s*(?::[^=]+)?=\s*[^;]*$', before)
            s, e = fn_extent(text, m.start())
            if lm and text[m.end():m.end() + 2].lstrip().startswith(';'):
                ident = lm.group(1)
                uses = re.findall(r'from_raw_fd\s*\(\s*%s\s*\)' % re.escape(ident), text[m.end():e])
                if len(uses) == 1:
                    rw = re.search(r'from_raw_fd\s*\(\s*%s\s*\)' % re.escape(ident), text[m.end():e])
                    between = re.sub(r'"(?:[^"\\]|\\.)*"', '""', text[m.end():m.end() + rw.start()])
                    if re.search(r'\?|\breturn\b|\bbreak\b|\bcontinue\b', between):
                        # an early exit between taking the descriptor out of its owner and re-wrapping it leaves it unowned
                        bad_into.append("%s::%s (early exit between into_raw_fd and its re-wrap)" % (f, fn))
                        rewrapped_ids.add((fn, ident))
                        continue
                    rewrapped_ids.add((fn, ident))
                    continue                                 # bound to a name and re-wrapped exactly once later in the same function, no exit in between
            if (f, fn) not in ALLOW_INTO:
                bad_into.append("%s::%s" % (f, fn))
        for m in re.finditer(r'\bfrom_raw_fd\s*\(', text):
            if re.search(r'\bfn\s+$', text[:m.start()]):
                continue                                     # the definition of a from_raw_fd method itself
            fn = enclosing_fn(text, m.start())
            arg = call_arg(text, m.end() - 1)
            if arg.endswith(".into_raw_fd()") or (fn, arg) in rewrapped_ids:
                continue
            if (f, fn, arg) not in RAW_WRAPS:
                unreg_wraps.append("%s::%s(%s)" % (f, fn, arg))
        for m in re.finditer(r'\bmem::forget\s*\(|\bManuallyDrop\b|\bBox::leak\s*\(|\.into_raw\s*\(', text):
            forget.append("%s::%s" % (f, enclosing_fn(text, m.start())))
    # descriptors enter the process only where their wrapping is proved: every recv_with_fds outside recv_into_iovec passes an
    # EMPTY descriptor buffer (`&mut []`: the kernel then installs nothing)
    bad_recv = []
    for f in FILES:
        try:
            text = u.rw.strip_comments(non_test(Source(f).src))
        except Exception:
            continue
        for m in re.finditer(r'\brecv_with_fds\s*\(', text):
            if re.search(r'\bfn\s+$', text[:m.start()]):
                continue
            fn = enclosing_fn(text, m.start())
            args = call_arg(text, m.end() - 1)
            second = args.split(",", 1)[1] if "," in args else ""
            if fn != "recv_into_iovec" and second != "&mut[]":
                bad_recv.append("%s::%s(%s)" % (f, fn, second))
    u.functions = []
    u.scan(["C09"], "descriptors_enter_only_through_recv_into_iovec", not bad_recv,
           "every recv_with_fds outside Endpoint::recv_into_iovec passes an empty descriptor buffer: raw descriptors are installed only where each is wrapped in a File (unit chunk, [C09:wrap-each-once]); offending: %s" % (bad_recv or "none"))
    u.scan(["C09"], "every_into_raw_fd_is_rewrapped", not bad_into,
           "every `.into_raw_fd()` in non-test code is re-wrapped by a `from_raw_fd(..)` (directly, or bound to a name that is re-wrapped exactly once in the same function with no `?` / return / break / continue in between): the descriptor never ends up unowned; offending: %s" % (sorted(set(bad_into)) or "none"))
    u.scan(["C09"], "raw_descriptor_wraps_are_the_registered_ones", not unreg_wraps,
           "every `from_raw_fd(x)` whose argument is not such a re-wrap is one of the registered sites whose ownership transfer is proved; unregistered: %s" % (sorted(set(unreg_wraps)) or "none"),
           on_fail="undecided")
    u.scan(["C09"], "no_forget_like_constructs", not forget,
           "no mem::forget / ManuallyDrop / Box::leak / into_raw( in non-test code (nothing escapes drop); found in: %s" % (sorted(set(forget)) or "none"))
    u.site_table = dict(("%s::%s(%s)" % k, v) for k, v in RAW_WRAPS.items())
    return u
