#!/usr/bin/env python3
"""writes MANIFEST.json from the engine's registry (claimed = properties that have registered obligations)"""
import json, os, sys
sys.path.insert(0, os.path.dirname(os.path.abspath(__file__)))
import engine

TEXT = {
    "C01": ("Layout table, flag/code tables, header algebra and body byte images are complete Kani proofs on the real structs against a table written from the specification; reply/request header construction and every frame handed to the socket are Verus postconditions on the extracted server arms / endpoint methods.",
            "Endianness other than the build target's is not covered; the socket primitive and ByteValued::as_slice are assumed; GPU channel covered by layout/flag harnesses only."),
    "C02": ("Every frontend API method (extracted verbatim) is verified to write exactly one request frame with the caller's values or, when it rejects locally, nothing; every backend dispatch arm is verified to call the handler at most once with the decoded arguments and the received descriptors.",
            "SCM_RIGHTS 'same open file' and the Mutex/RwLock adapters are assumed (A-OS, A-LOCK); cross-endpoint composition is by matching frame contracts, not by running both ends."),
    "C03": ("Reply construction per handler outcome (backend arms) and reply acceptance / result mapping (frontend methods and receive helpers) are Verus postconditions over all handler outcomes and all received frames.",
            "Bounded-time clause is not decidable by contracts; a peer that stops sending while the connection stays open is outside the model."),
    "C04": ("For every arm and every negotiation state: frames written are exactly the prescribed reply / ack / nothing (ack_rule, reply rules), the reply-ack flag invariant is preserved, and the prologue consumes exactly one header plus the declared body size.",
            "History induction is by the preserved invariant; the dispatch glue (match on the request code) is not verified as a whole, each arm is."),
    "C05": ("Validators == protocol rules (both engines), unsafe reads guarded by preconditions proved at every call site (Verus) and checked on the real code with CBMC pointer checks (Kani), handler trace only receives validated values; arithmetic overflow / bounds / unwrap obligations are Verus defaults on all extracted text.",
            "Panics inside dependencies and poisoned locks are not covered; the daemon-side handler (vhost-user-backend) is covered separately where registered."),
    "C06": ("is_reply_for (complete Kani proof), the five frontend receive helpers and wait_for_ack: Ok only for the matching valid reply with the prescribed descriptors, and only values taken from the consumed frame.",
            "The backend-initiated request server and GPU proxy are covered where their units are registered."),
    "C07": ("Every gated frontend method and backend arm: gate bit clear in the relevant acknowledged word implies error, wire unchanged, handler untouched; acknowledged words change only in the SET_* operations; REPLY_ACK is always offered.",
            "Gate table is written from the specification's bit numbers (literals), flag constants are checked against it."),
    "C09": ("recv_into_iovec wraps every descriptor the kernel installed in exactly one File and returns an error only when none was installed (Verus, every count up to the 32-entry buffer); recv_into_iovec_all keeps the files of the first chunk and drops the rest (Verus); ownership-transfer sites (into_raw_fd/from_raw_fd in set_backend_req_fd, set_gpu_socket, set_vring_kick/call/err, take_single_file, handle_vring_fd_request) carry a ledger proof with OwnedFd::drop stubbed (Kani); arms hand the received descriptors to the handler exactly as received or drop them (Verus); scan: every into_raw_fd is re-wrapped in the same expression (or bound to a name that is re-wrapped exactly once with no `?`/return/break/continue in between), the from_raw_fd sites are exactly the proved ones, no forget-like construct exists.",
            "Rust's affine ownership (A-AFFINE) covers everything between the listed sites; descriptors beyond 32 are closed inside vmm-sys-util (dependency); the worker's own exit-event consumer is intentionally handed to epoll for its lifetime (not a received descriptor)."),
    "C10": ("Lock-discipline lemma: every frontend method takes the lock at most once and performs its whole request/reply exchange through that one guard (Tx then Rx with nothing in between in the ghost event log); a syntactic frame condition (no second acquisition of the endpoint mutex while a let-bound guard is live, in frontend.rs / backend_req.rs / gpu_backend_req.rs) covers closures, which the Verus dialect cannot reach.",
            "Mutual exclusion of std::sync::Mutex is assumed (A-LOCK); this is a proof of the lemma the property reduces to, not an exploration of schedules."),
    "C20": ("One complete Kani proof per validator over all bit patterns against a reference predicate written from the property text, plus the same real bodies verified in Verus.",
            "uuid::Uuid::is_nil/is_max run on the real dependency code under Kani."),
}
TEXT.update({
    "C08": ("get_sub_iovs_offset, Endpoint::send_iovec_all and Endpoint::recv_into_iovec_all are verified in Verus for EVERY iovec list, every length and every chunking the socket primitive may choose (loop invariants, no bound): the wire carries exactly a prefix of hdr|body|payload, each byte once and in order, the descriptors go with the first byte only; the k-th stream byte is stored at the k-th address of the caller's buffers and the descriptors returned are those of the first chunk. Header/body/payload receivers classify every short read (Kani, complete: clean disconnect only at a boundary, PartialMessage inside, never a value from a short read); recv_data, recv_into_iovec_all and send_iovec_all return a short count only at end of stream / after the socket accepted nothing, never surface a retry-class error (errno classification verified against the property's table) and terminate (measure: bytes left, then remaining retry answers; recv_data: bytes left) - Verus, unbounded; recv_data cross-checked on the real code (Kani, bounded length); send_message* hand exactly hdr|body|payload and the caller's descriptors to send_iovec_all once (Kani).",
            "One sendmsg/recvmsg (send_iovec / recv_into_iovec) is the assumed boundary (A-OS); the iterator/concat expressions of the two loops are replaced by environment functions (R19) whose meaning is cross-checked on the un-rewritten code by the bounded Kani chunking harnesses (thorough tier); 'without blocking forever': the three loops carry a decreases clause under A-RETRY-FINITE (the socket answers retry finitely often) and with every single sendmsg/recvmsg returning (a blocking socket whose live peer never sends is outside the model)."),
    "C11": ("Registration invariant (kick descriptor registered with the ring's rank on the owning worker iff started and enabled, nothing else registered) and the transition table are proved for each control message from an ARBITRARY ring state on the real VhostUserHandler / VringState / Queue code (Kani; one ring in the quick tier, two rings with the frame on the other ring and 'reaches every ring' for SET_FEATURES / RESET_DEVICE in the thorough tier); the worker's dispatch rule (backend entered iff read_kick reports enabled; Kani) and its epoll loop (every returned event with known bits dispatched exactly once, in order; Verus, unbounded).",
            "epoll level-triggering and 'the registration of a received eventfd survives the daemon's close' are assumed (A-EPOLL); thread interleavings are C12 (not applicable)."),
    "C13": ("vmm_va_to_gpa: first containing region, gpa_base + (va - user_base), rejected iff none contains it, no overflow under the table invariant (Verus, all tables); SET_MEM_TABLE / ADD_MEM_REG / REM_MEM_REG and the shared replace_memory helper: resulting memory view (region j = message region j backed by descriptor j at its mmap_offset), mapping table, exactly one backend notification per successful change, and on every failure path memory view and table unchanged (Verus against the documented vm-memory contracts, all region counts).",
            "vm-memory (mmap, GuestMemoryMmap::from_regions / insert_region / remove_region, GuestMemoryAtomic) is modelled by its documented effect on a ghost region list (A-VMM): 'each byte backed by the file' is that model, not a proof about mmap. The defect found here (memory replaced before a refusable update_memory) is repaired by fix 8bb36c0."),
    "C14": ("Real handler + real virtio-queue Queue (Kani): SET_VRING_NUM range and effect, SET_VRING_BASE / GET_VRING_BASE next-avail round trip, SET_FEATURES subset rule and EVENT_IDX / acked bits reaching every queue and the backend, out-of-range index rejected by every per-ring message, signal_used_queue uses the latest call descriptor; SET_VRING_ADDR argument routing and translation and set_backend_req_fd flag inheritance (Verus); 161 adapter methods are pure delegations (scan).",
            "Queue::set_size silently ignores non powers of two (outside the property's accepted sizes); the SET_VRING_ADDR call order is a scan obligation."),
    "C15": ("AtomicBitmapMmap::new accepts exactly when the log covers the region's last page; mark_dirty performs exactly the writes (byte page/8, bit page%8 of the absolute page) for every offset/length with every index inside the mapping; BitmapMmapRegion::mark_dirty logs a write at `offset` of a slice as a write at base_address + offset of the region, slice_at adds offsets and shares the inner bitmap, replace installs the new log; handler set_log_base installs the log in EVERY region or, when refused, in none (Verus, unbounded) - plus bit-exact effect on a real in-memory log for all layouts of a 32-page log (Kani, bounded). Logging stays in force across memory-table changes: Verus clause on set_mem_table / add_mem_region FAILS (two known findings).",
            "Atomicity rests on fetch_or being the only write to the log (scan) + A-ATOMIC; sharing of the inner bitmap between slices is A-CLONE; two known findings (regions added / tables installed after SET_LOG_BASE are not logged)."),
    "C16": ("Sequential fragment only: wait()'s join-result classification uses the shutdown flag as read AFTER the join, connection state reset on every path; serve() raises the exit events exactly once whatever wait() returns and maps clean/partial disconnects to success; the worker's epoll loop returns only after the exit event was dispatched; the request body read ends at end of stream (the daemon thread cannot spin after the peer closed inside a body); each worker registers the consumer half of the backend's exit event once with id num_queues and keeps the notifier half of the same pair, send_exit_event writes EVERY worker's exit eventfd exactly once, and Drop for VhostUserHandler writes them before it joins any worker and joins every worker (Verus, every number of workers); ShutdownHandle::shutdown records the request and THEN shuts the socket down in both directions, nothing else (Verus, ghost event log; also kept as a scan); Drop and the daemon thread shut both directions, serve()'s exit-event statement is unconditional (scan).",
            "Every timing clause of the property (position of the shutdown request relative to the daemon thread, bounded time, peer observing EOF) is schedules x crash points and is NOT decided."),
    "C17": ("For EVERY queues-per-thread configuration (any number of workers, any 64-bit masks, up to 64 queues; Verus, unbounded): VhostUserHandler::new gives worker t the thread id t and the rings of mask t in increasing queue order; update_vring_registration talks only to the FIRST worker whose mask contains the queue, with event id popcount(mask) - popcount(mask >> q) = number of the mask's queues below q; lemma: slice[event id] is queue q, and the owner is unique. VringEpollHandler::new keeps backend, ring slice and thread id and registers the exit event with id num_queues; register/unregister_event issue exactly one epoll_ctl(Add/Delete) with the caller's descriptor, event set and id; register/unregister_listener refuse ids <= num_queues and ids above 65535 without touching the epoll set (Verus). Real-code Kani: the worker's dispatch (backend entered with the registered id, the thread id and its slice), custom listener ids (reserved range refused, accepted ids delivered unchanged by the 16-bit dispatch, never a ring rank or the exit id; all u64 ids), registration on the real handler (bounded: 3 queues, masks < 8).",
            "Assumed: u64::count_ones is the population count (A-POPCNT), Arc / thread spawn / epoll_ctl are opaque (R23, argument contracts); more than 64 queues overflow `mask >> index` (A-NQ64, precondition)."),
    "C18": ("Proxy: gate, exactly one frame with NEED_REPLY iff reply-ack, with reply-ack exactly one acknowledgement consumed and success iff it matches with value 0; server: prologue + every arm: handler invoked exactly once with the decoded body and the lent descriptor, acknowledgement iff reply-ack and NEED_REPLY with value n / -errno / -EINVAL (Verus, all handler outcomes).",
            "k-th ack answers k-th request follows from one-frame-out / one-frame-in per call under the lock (A-LOCK); errno == i32::MIN excluded (A-ERRNO)."),
    "C19": ("Every operation of the blanket VhostBackend impl, VhostKernFeatures, vDPA, net and vsock: exactly one ioctl with the UAPI request number (table generated from <linux/vhost.h>), argument bytes at the UAPI offsets equal to the caller's values, result equal to what the kernel wrote back; invalid ring configurations refused with zero ioctls; vDPA passes guest addresses unchanged; IOTLB v1/v2 parse round trip; binding layouts == UAPI layouts (Kani, complete). In Verus (unit kern, no bound on region counts / buffer lengths): set_mem_table issues one VHOST_SET_MEM_TABLE whose entry j is region j unchanged (empty / over-long tables refused with zero ioctls); vDPA get_config / set_config issue one ioctl with the caller's offset, length and bytes; send_iotlb_msg hands one write(2) the V2 struct iff IOTLB_MSG_V2 was acknowledged with the caller's fields, dma_map / dma_unmap build UPDATE (RO/RW) / INVALIDATE on top of it; ioctl_result / io_result.",
            "Boundary: the ioctl layer and write(2) (A-OS), FamStructWrapper (vmm-sys-util, A-FAM), VhostMemory's byte layout (A-VHOSTMEM, cross-checked by Kani for 1..3 entries). The former bounded Kani harnesses for set_mem_table / vDPA config exhausted CBMC's memory and are no longer registered. Kernel-backend host-address translation needs mmap'ed guest memory and is not covered."),
})
DEFAULT = ("Kani leaf harnesses on the real crate and Verus contracts on mechanically extracted functions; see DESIGN.md section 5.",
           "see evidence assumptions")


def main():
    hs = engine.kani_harnesses()
    checks = []
    claimed = []
    for p in engine.ALL_PROPS:
        has = any(p in i["props"] for i in hs.values()) or p in engine.VERUS_FOR
        if not has or p in NOT_APPLICABLE:
            continue
        claimed.append(p)
        text, note = TEXT.get(p, DEFAULT)
        checks.append({
            "property_id": p,
            "quick_cmd": "./check %s --tier quick" % p,
            "thorough_cmd": "./check %s --tier thorough" % p,
            "evidence_file": "/verif/evidence/%s.json" % p,
            "replay_cmd_template": "./check %s --replay {path}" % p,
            "engine": "contracts",
            "level_claimed": {"category": "proof", "text": text, "design_ref": "DESIGN.md section 5, %s" % p},
            "level_note": note,
            "technique": "contract-based deductive verification: Kani (CBMC) harness contracts on the real crate + Verus (Z3) pre/postconditions on functions extracted verbatim from the working tree",
        })
    na = [{"property_id": p, "reason": r} for p, r in NOT_APPLICABLE.items()]
    for p in engine.ALL_PROPS:
        if p not in claimed and p not in NOT_APPLICABLE:
            na.append({"property_id": p, "reason": "no check registered yet (unit under construction); not claimed"})
    man = {
        "version": 1,
        "setup_cmd": "./setup.sh",
        "hooks": {
            "guard": "cfg(kani)",
            "enable": "no hooks are committed to /repo: checks copy the working tree to a scratch directory and append `#[cfg(kani)] #[path=...] mod verif_kani;` lines there; Verus units are extracted from the working tree at check time",
            "baseline_off_cmd": "cd /repo && cargo test --workspace --no-fail-fast --offline",
            "source_commits": [],
            "add_only": True,
        },
        "engines": [
            {"name": "contracts", "path": "/verif/check", "serves_properties": claimed,
             "kind_free_text": "kx.py: Kani driver (scratch copy, child-module harness injection, stubs, concrete playback); vx.py + units_*.py: extractor, rewrite rules, contract environment, Verus driver; engine.py: registry, verdicts, evidence"},
        ],
        "checks": checks,
        "notes": "fix commits in /repo: see known_findings.txt (fixed: entries). exit 2 from a check means undecided (lost anchor / resource limit), never an alarm.",
        "not_applicable": na,
    }
    json.dump(man, open(os.path.join(engine.VERIF, "MANIFEST.json"), "w"), indent=1)
    print("claimed:", claimed)


NOT_APPLICABLE = {
    "C12": "quantifies over thread interleavings inside the epoll-returned -> kick-read -> dispatch window; Kani has no threads and Verus would need the event loop rewritten with its own permission/atomic types (a model, not contracts on the real code); the sequential facts it rests on are proved under C11",
}

if __name__ == "__main__":
    main()
