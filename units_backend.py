"""Verus unit: vhost/src/vhost_user/backend_req_handler.rs (backend request server)
   + the message validators/constructors of message.rs it calls + take_single_file (mod.rs).

Everything between //@begin-extracted and //@end-extracted is copied from /repo's working tree on
every run; contracts are attached here.  Postcondition lines carry [Cxx] labels: a failing clause is
reported against those properties."""
import re
from vx import Unit, Source, ExtractError, parse_enum_value, gen_req_enum, parse_bitflags, split_match_arms, match_brace

MSG = "vhost/src/vhost_user/message.rs"
BRH = "vhost/src/vhost_user/backend_req_handler.rs"
MOD = "vhost/src/vhost_user/mod.rs"

ALL = "C02,C03,C04,C05,C07,C09"


def gen_enums(u, msg):
    for nm, is_req in (("FrontendReq", True), ("BackendReq", True),
                       ("VhostTransferStateDirection", False), ("VhostTransferStatePhase", False)):
        name, ty, vals = parse_enum_value(msg.macro_block("enum_value", r'\benum\s+%s\b' % nm))
        u.rw._count("R4", 1)
        u.raw(gen_req_enum(name, vals, is_req))
    # try_from/try_into of the two transfer enums used by SET_DEVICE_STATE_FD (R6 targets)
    u.raw("""
// R6 targets: `msg.direction.try_into().map_err(|_| Error::InvalidMessage)?` (enum_value! TryFrom; table proved-by: c20_transfer_state_valid)
#[verifier::external_body]
pub fn direction_try_into(v: u32) -> (r: Result<VhostTransferStateDirection>)
    ensures match VhostTransferStateDirection::spec_try_from(v) { Some(d) => r == Ok::<VhostTransferStateDirection, Error>(d) && d.code() == v, None => r == Err::<VhostTransferStateDirection, Error>(Error::InvalidMessage) }
{ unimplemented!() }
// R6 targets: `direction as u32` / `phase as u32` (enum discriminant casts; table proved-by: c01_request_code_names)
#[verifier::external_body]
pub fn direction_code(d: VhostTransferStateDirection) -> (r: u32) ensures r == d.code() { unimplemented!() }
#[verifier::external_body]
pub fn phase_code(d: VhostTransferStatePhase) -> (r: u32) ensures r == d.code() { unimplemented!() }
pub fn unwrap_or_0(o: Option<u64>) -> (r: u64) ensures r == (match o { Some(a) => a, None => 0 }) { match o { Some(a) => a, None => 0 } }
#[verifier::external_body]
pub fn phase_try_into(v: u32) -> (r: Result<VhostTransferStatePhase>)
    ensures match VhostTransferStatePhase::spec_try_from(v) { Some(d) => r == Ok::<VhostTransferStatePhase, Error>(d) && d.code() == v, None => r == Err::<VhostTransferStatePhase, Error>(Error::InvalidMessage) }
{ unimplemented!() }
""")


def gen_flag_consts_check(u, msg):
    """R4: the constants of the bitflags! blocks in the working tree must equal the environment's copies
    (emitted as compile-time-evaluated Verus assertions, so a changed constant fails here too)."""
    lines = ["proof fn flag_tables_match_environment() {"]
    for sname in ("VhostUserHeaderFlag", "VhostUserVirtioFeatures", "VhostUserProtocolFeatures",
                  "VhostUserVringAddrFlags", "VhostUserConfigFlags", "VhostUserMMapFlags"):
        name, ty, vals = parse_bitflags(msg.macro_block("bitflags", r'\bstruct\s+%s\b' % sname))
        u.rw._count("R4", 1)
        for cname, v in vals:
            if sname == "VhostUserHeaderFlag" and cname == "RESERVED_BITS":
                continue
            lines.append("    assert(%s::%s.bits == %d%s); // [C01,C07]" % (sname, cname, v, ty))
    lines.append("}")
    u.raw("\n".join(lines) + "\n")


BODY_IMPLS = [
    # (type, spec_size, valid_spec expr, has own is_valid)
    ("VhostUserEmpty", 0, "true"),
    ("VhostUserU64", 8, "true"),
    ("VhostUserMemory", 8, "memory_valid(*self)"),
    ("VhostUserMemoryRegion", 32, "region_valid(*self)"),
    ("VhostUserSingleMemoryRegion", 40, "region_valid(self.region)"),
    ("VhostUserShMemConfig", 2056, "true"),
    ("VhostUserVringState", 8, "true"),
    ("VhostUserVringAddr", 40, "vring_addr_valid(*self)"),
    ("VhostUserConfig", 12, "config_valid(*self)"),
    ("VhostUserInflight", 24, "inflight_valid(*self)"),
    ("VhostUserLog", 16, "log_valid(*self)"),
    ("VhostUserSharedMsg", 16, "shared_valid(*self)"),
    ("VhostUserTransferDeviceState", 8, "transfer_valid(*self)"),
    ("VhostUserMMap", 40, "mmap_valid(*self)"),
]


def gen_bodies(u, msg, extra_ctors=False):
    """ByteValued impls (uninterpreted byte image) + the REAL is_valid bodies verified against the protocol rule"""
    trait_s, trait_e = None, None
    # default body of the trait method (for `impl VhostUserMsgValidator for X {}`)
    m = re.search(r'pub\s+trait\s+VhostUserMsgValidator\b[^{]*\{', msg.src)
    if not m:
        raise ExtractError("lost anchor: trait VhostUserMsgValidator")
    tb = match_brace(msg.src, msg.mask, m.end() - 1)
    default_body = msg.fn_body("is_valid", within=(m.end(), tb))
    for ty, size, vspec in BODY_IMPLS:
        u.raw("impl ByteValued for %s {\n    uninterp spec fn bytes(&self) -> Seq<u8>;\n    uninterp spec fn decode(s: Seq<u8>) -> Self;\n    open spec fn spec_size() -> nat { %d }\n}" % (ty, size))
        # locate `impl VhostUserMsgValidator for TY`
        try:
            span = msg.impl_span(r'impl VhostUserMsgValidator for %s\b' % ty)
        except ExtractError:
            raise
        inner = msg.src[span[0]:span[1]]
        u.raw("impl VhostUserMsgValidator for %s {\n    open spec fn valid_spec(&self) -> bool { %s }" % (ty, vspec))
        if re.search(r'\bfn\s+is_valid\b', inner):
            extra = []
            if ty == "VhostUserMemoryRegion":
                # the trait impl delegates to the inherent `is_valid` -> `is_valid_common`; follow the chain
                extra = [("R3", r'self\.is_valid\(\)', 'self.is_valid_inherent()')]
            if ty == "VhostUserTransferDeviceState":
                extra = [("R6", r'VhostTransferStateDirection::try_from\(self\.direction\)', 'direction_try_into(self.direction)'),
                         ("R6", r'VhostTransferStatePhase::try_from\(self\.phase\)', 'phase_try_into(self.phase)')]
            if ty == "VhostUserMMap":
                pass
            u.extracted_fn(msg, "is_valid", within=span, body_rw=extra, contract="    // [C20,C05] real validator == protocol rule")
        else:
            u.spans.append((MSG, "VhostUserMsgValidator::is_valid(default) for " + ty, "default"))
            u.functions.append("is_valid_default_" + ty)
            u.raw("//@begin-extracted %s::VhostUserMsgValidator::is_valid (trait default body, used by the empty impl for %s)\n    fn is_valid(&self) -> (r: bool) // [C20,C05] real validator == protocol rule\n    {%s}\n//@end-extracted" % (MSG, ty, u.rewrite_body(default_body)))
        u.raw("}")
    # inherent helpers of VhostUserMemoryRegion
    span = msg.impl_span(r'^impl VhostUserMemoryRegion$')
    u.raw("impl VhostUserMemoryRegion {")
    u.extracted_fn(msg, "is_valid_common", within=span, contract="    ensures r == region_valid(*self) // [C20,C05]")
    # the cfg(not(xen)) inherent impl holding `is_valid`
    span2 = None
    for mm in re.finditer(r'impl VhostUserMemoryRegion\s*\{', msg.src):
        ob = mm.end() - 1
        cb = match_brace(msg.src, msg.mask, ob)
        if re.search(r'\bfn\s+is_valid\b', msg.src[ob:cb]) and 'with_xen' not in msg.src[ob:cb]:
            span2 = (ob + 1, cb)
    if not span2:
        raise ExtractError("lost anchor: inherent VhostUserMemoryRegion::is_valid")
    u.extracted_fn(msg, "is_valid", within=span2, rename="is_valid_inherent", contract="    ensures r == region_valid(*self) // [C20,C05]")
    u.raw("}")
    # constructors used by the server (and, with extra_ctors, by the frontend endpoint)
    ctors = [("VhostUserU64", "new", "r.value == value"),
             ("VhostUserConfig", "new", "r.offset == offset, r.size == size, r.flags == flags.bits"),
             # every slice length (the Kani harness c01_shmem_config_new_bounded covers slices of <= 4 entries on the un-rewritten code)
             ("VhostUserShMemConfig", "new", "r.nregions == nregions, r.padding == 0, forall|i: int| 0 <= i < 256 ==> r.memory_sizes@[i] == (if i < memory@.len() { memory@[i] } else { 0u64 })")]
    if extra_ctors:
        ctors += [("VhostUserVringState", "new", "r.index == index, r.num == num"),
                  ("VhostUserMemory", "new", "r.num_regions == cnt, r.padding1 == 0"),
                  ("VhostUserMemoryRegion", "new", "r.guest_phys_addr == guest_phys_addr, r.memory_size == memory_size, r.user_addr == user_addr, r.mmap_offset == mmap_offset"),
                  ("VhostUserSingleMemoryRegion", "new", "r.padding == 0, r.region == (VhostUserMemoryRegion { guest_phys_addr, memory_size, user_addr, mmap_offset })"),
                  ("VhostUserTransferDeviceState", "new", "r.direction == direction.code(), r.phase == phase.code()"),
                  ("VhostUserVringAddr", "from_config_data", "r.index == index, r.flags == config_data.flags, r.descriptor == config_data.desc_table_addr, r.used == config_data.used_ring_addr, r.available == config_data.avail_ring_addr, r.log == (match config_data.log_addr { Some(a) => a, None => 0 })")]
    if extra_ctors:
        # VringConfigData helpers (vhost/src/backend.rs) used by from_config_data / the kernel backends
        bk = Source("vhost/src/backend.rs")
        sp = bk.impl_span(r'^impl VringConfigData$')
        u.raw("impl VringConfigData {")
        u.extracted_fn(bk, "is_log_addr_valid", within=sp, contract="    ensures r == !(self.flags & 0x1 != 0 && self.log_addr is None) // [C19,C02]")
        u.extracted_fn(bk, "get_log_addr", within=sp, contract="    ensures r == (if self.flags & 0x1 != 0 && self.log_addr is Some { self.log_addr->Some_0 } else { 0 }) // [C19,C02]")
        u.raw("}")
    for ty, fn, ens in ctors:
        span = None
        for mm in re.finditer(r'(?m)^impl %s\s*\{' % ty, msg.src):
            ob = mm.end() - 1
            cb = match_brace(msg.src, msg.mask, ob)
            if re.search(r'\bfn\s+%s\b' % fn, msg.src[ob:cb]) and 'xen_mmap_flags' not in msg.src[ob:cb]:
                span = (ob + 1, cb)
        if not span:
            raise ExtractError("lost anchor: %s::%s" % (ty, fn))
        u.raw("impl %s {" % ty)
        u.extracted_fn(msg, fn, within=span, contract="    ensures %s // [C01,C02,C03]" % ens,
                       body_rw=[("R6", r'direction as u32', 'direction_code(direction)'), ("R6", r'phase as u32', 'phase_code(phase)'),
                                ("R6", r'config_data\.log_addr\.unwrap_or\(0\)', 'unwrap_or_0(config_data.log_addr)'),
                                ("R19", r'std::array::from_fn\(\|i\| \*memory\.get\(i\)\.unwrap_or\(&0\)\)', 'array256_from_slice_or(memory, 0)')])
        u.raw("}")


# ---------------------------------------------------------------------------------------------- helpers
HELPERS = [
    ("check_feature", dict(contract="""
        ensures (r is Ok) == (self.acked_virtio_features & feat.bits != 0) // [C07]""")),
    ("check_proto_feature", dict(contract="""
        ensures (r is Ok) == (self.acked_protocol_features & feat.bits != 0) // [C07]""")),
    ("check_state", dict(contract="""
        ensures (r is Ok) == (self.error is None)""")),
    ("set_failed", dict(contract="""
        ensures final(self).error == Some(error), final(self).main_sock == old(self).main_sock, final(self).backend == old(self).backend,
            final(self).virtio_features == old(self).virtio_features, final(self).acked_virtio_features == old(self).acked_virtio_features,
            final(self).acked_protocol_features == old(self).acked_protocol_features, final(self).reply_ack_enabled == old(self).reply_ack_enabled, // [C05:server-failed-setter,C07] the failure is recorded (check_state then refuses every request) and no negotiated state changes""")),
    ("check_request_size", dict(contract="""
        ensures (r is Ok) == (hdr.size as usize == expected && req_ok(*hdr) && size == expected) // [C05]""")),
    ("check_attached_files", dict(contract="""
        ensures (r is Ok) == (takes_fds(hdr.request) || files is None) // [C05,C09]""")),
    ("extract_request_body", dict(
        sig_rw=[("R5", r'T:\s*Sized\s*\+\s*VhostUserMsgValidator', 'T: VhostUserMsgValidator')],
        contract="""
        requires buf@.len() >= size
        ensures
            (r is Ok) == (hdr.size as nat == T::spec_size() && req_ok(*hdr) && size as nat == T::spec_size()
                          && T::decode(buf@.subrange(0, T::spec_size() as int)).valid_spec()), // [C05]
            r is Ok ==> r->Ok_0 == T::decode(buf@.subrange(0, T::spec_size() as int)), // [C02]""")),
    ("update_reply_ack_flag", dict(contract="""
        ensures srv_inv(*final(self)), // [C04,C03] the cached flag IS the negotiated condition (offered PROTOCOL_FEATURES and acknowledged REPLY_ACK)
            final(self).virtio_features == old(self).virtio_features, final(self).acked_virtio_features == old(self).acked_virtio_features,
            final(self).acked_protocol_features == old(self).acked_protocol_features, final(self).error == old(self).error,
            final(self).backend == old(self).backend, final(self).main_sock == old(self).main_sock""")),
    ("new_reply_header", dict(
        sig_rw=[("R5", r'T:\s*Sized', 'T: ByteValued')],
        contract="""
        ensures
            (r is Ok) == (T::spec_size() + payload_size <= 4096 && self.error is None && FrontendReq::spec_try_from(req.request) is Some),
            r is Ok ==> r->Ok_0.request == req.request && r->Ok_0.flags == 5 && r->Ok_0.size as nat == T::spec_size() + payload_size, // [C01,C04]""")),
    ("send_ack_message", dict(contract="""
        requires srv_inv(*old(self)), old(self).error is None, hdr_valid_spec(*req), !old(self).main_sock.io_failed@
        ensures
            final(self).backend == old(self).backend, neg_unchanged(*old(self), *final(self)), rx_same(*old(self), *final(self)),
            ack_rule(*old(self), *final(self), *req, res is Ok), // [C04,C03]
            res is Err ==> r is Err, // [C03]
            !final(self).main_sock.io_failed@ ==> (r is Ok) == (res is Ok), // [C03]""")),
    ("send_reply_message", dict(contract="""
        requires old(self).error is None, hdr_valid_spec(*req), !old(self).main_sock.io_failed@, T::spec_size() <= 4096
        ensures
            final(self).backend == old(self).backend, neg_unchanged(*old(self), *final(self)), rx_same(*old(self), *final(self)),
            r is Ok ==> sent_one(*old(self), *final(self), reply_frame(*req, *msg, Seq::<u8>::empty(), Seq::<int>::empty())) && !final(self).main_sock.io_failed@, // [C01,C04]
            r is Err ==> sent_nothing(*old(self), *final(self)) && final(self).main_sock.io_failed@,""")),
    ("send_reply_with_payload", dict(contract="""
        requires old(self).error is None, hdr_valid_spec(*req), !old(self).main_sock.io_failed@, T::spec_size() + payload@.len() <= 4096
        ensures
            final(self).backend == old(self).backend, neg_unchanged(*old(self), *final(self)), rx_same(*old(self), *final(self)),
            r is Ok ==> sent_one(*old(self), *final(self), reply_frame(*req, *msg, payload@, Seq::<int>::empty())) && !final(self).main_sock.io_failed@, // [C01,C04]
            r is Err ==> sent_nothing(*old(self), *final(self)) && final(self).main_sock.io_failed@,""")),
    ("handle_vring_fd_request", dict(contract="""
        requires files is Some ==> files->Some_0@.len() >= 1   // a received descriptor list is never empty (recv contract)
        ensures
            *final(self) == *old(self),
            (r is Ok) == (8 <= buf@.len() <= 4096 && (if vring_fd_value(buf@) & 0x100 == 0 { files is Some && files->Some_0@.len() == 1 } else { files is None })), // [C05,C09]
            r is Ok ==> r->Ok_0.0 == vring_fd_value(buf@) as u8
                && opt_file_id(r->Ok_0.1) == (if vring_fd_value(buf@) & 0x100 == 0 { seq![files->Some_0@[0].id@] } else { Seq::<int>::empty() }), // [C02,C09]""")),
    ("set_mem_table", dict(
        loops=[dict(kind="for", nth=0, iter="it", text="""            invariant forall|j: int| 0 <= j < it.index@ ==> region_valid(#[trigger] regions@[j]),
                regions@ =~= mem_table_regions(buf@), *self == *old(self)""")],
        contract="""
        requires buf@.len() == size, hdr.size == size
        ensures
            final(self).main_sock == old(self).main_sock, neg_unchanged(*old(self), *final(self)),
            !mem_table_ok(*hdr, size, buf@, files) ==> r is Err && final(self).backend == old(self).backend, // [C05,C13] one descriptor per region, every region valid
            mem_table_ok(*hdr, size, buf@, files) ==> called(*old(self), *final(self), Call::SetMemTable(mem_table_regions(buf@), file_ids(files->Some_0@)))
                && (r is Ok) == ret_ok(*final(self)), // [C02,C03,C13]""")),
    ("get_config", dict(contract="""
        requires old(self).error is None, hdr_valid_spec(*hdr), !old(self).main_sock.io_failed@
        ensures
            neg_unchanged(*old(self), *final(self)), rx_same(*old(self), *final(self)),
            !config_req_ok(buf@) ==> r is Err && nothing_done(*old(self), *final(self)), // [C05]
            config_req_ok(buf@) ==> called(*old(self), *final(self), Call::GetConfig(config_of(buf@).offset, config_of(buf@).size, config_of(buf@).flags)), // [C02]
            config_req_ok(buf@) ==> (final(self).main_sock.io_failed@ || (r is Ok && match final(self).backend.rets@.last() {
                Ret::Bytes(b) => if b.len() == config_of(buf@).size {
                        sent_one(*old(self), *final(self), reply_frame(*hdr, VhostUserConfig { offset: config_of(buf@).offset, size: config_of(buf@).size, flags: config_of(buf@).flags }, b, Seq::<int>::empty()))
                    } else {
                        sent_one(*old(self), *final(self), reply_frame(*hdr, VhostUserConfig { offset: config_of(buf@).offset, size: 0, flags: config_of(buf@).flags }, Seq::<u8>::empty(), Seq::<int>::empty()))
                    },
                _ => sent_one(*old(self), *final(self), reply_frame(*hdr, VhostUserConfig { offset: config_of(buf@).offset, size: 0, flags: config_of(buf@).flags }, Seq::<u8>::empty(), Seq::<int>::empty())),
            })), // [C03,C04,C01]""")),
    ("set_config", dict(contract="""
        requires buf@.len() == size
        ensures
            final(self).main_sock == old(self).main_sock, neg_unchanged(*old(self), *final(self)),
            !config_req_ok(buf@) ==> r is Err && final(self).backend == old(self).backend, // [C05]
            config_req_ok(buf@) ==> called(*old(self), *final(self), Call::SetConfig(config_of(buf@).offset, buf@.subrange(12, buf@.len() as int), config_of(buf@).flags))
                && (r is Ok) == ret_ok(*final(self)), // [C02,C03]""")),
    ("set_backend_req_fd", dict(contract="""
        ensures
            final(self).main_sock == old(self).main_sock, neg_unchanged(*old(self), *final(self)),
            (r is Ok) == (files is Some && files->Some_0@.len() == 1), // [C05,C09]
            r is Ok ==> called(*old(self), *final(self), Call::SetBackendReqFd(files->Some_0@[0].id@)), // [C02,C09]
            r is Err ==> final(self).backend == old(self).backend,""")),
    ("set_gpu_socket", dict(contract="""
        ensures
            final(self).main_sock == old(self).main_sock, neg_unchanged(*old(self), *final(self)),
            !(files is Some && files->Some_0@.len() == 1) ==> r is Err && final(self).backend == old(self).backend, // [C05,C09]
            (files is Some && files->Some_0@.len() == 1) ==> called(*old(self), *final(self), Call::SetGpuSocket(files->Some_0@[0].id@))
                && (r is Ok) == ret_ok(*final(self)), // [C02,C03,C09]""")),
]

# ---------------------------------------------------------------------------------------------- arms
# gate: expression over old(self); valid: body/descriptor validity; call: Call value; kind: ack | custom
PF = lambda bit: "(old(self).acked_protocol_features & 0x%x != 0)" % (1 << bit)
SZ0 = "(hdr.size == 0 && req_ok(hdr))"


def body_ok(ty):
    return "(hdr.size as nat == %s::spec_size() && req_ok(hdr) && %s::decode(buf@.subrange(0, %s::spec_size() as int)).valid_spec())" % (ty, ty, ty)


def dec(ty):
    return "%s::decode(buf@.subrange(0, %s::spec_size() as int))" % (ty, ty)


ONE_FILE = "(files is Some && files->Some_0@.len() == 1)"
F0 = "files->Some_0@[0].id@"

ACK_ARMS = {
    # pattern -> (code, gate, valid, call, negotiation effect)
    "SET_OWNER": (3, "true", SZ0, "Call::SetOwner", None),
    "RESET_OWNER": (4, "true", SZ0, "Call::ResetOwner", None),
    "RESET_DEVICE": (34, PF(13), SZ0, "Call::ResetDevice", None),
    "SET_FEATURES": (2, "true", body_ok("VhostUserU64"), "Call::SetFeatures(%s.value)" % dec("VhostUserU64"),
                     "final(self).acked_virtio_features == %s.value && final(self).virtio_features == old(self).virtio_features && final(self).acked_protocol_features == old(self).acked_protocol_features" % dec("VhostUserU64")),
    "SET_MEM_TABLE": (5, "true", "mem_table_ok(hdr, size, buf@, files)", "Call::SetMemTable(mem_table_regions(buf@), file_ids(files->Some_0@))", None, "(true)"),
    "SET_VRING_NUM": (8, "true", body_ok("VhostUserVringState"), "Call::SetVringNum({0}.index, {0}.num)".format(dec("VhostUserVringState")), None),
    "SET_VRING_ADDR": (9, "true", body_ok("VhostUserVringAddr"),
                       "Call::SetVringAddr({0}.index, {0}.flags, {0}.descriptor, {0}.used, {0}.available, {0}.log)".format(dec("VhostUserVringAddr")), None),
    "SET_VRING_BASE": (10, "true", body_ok("VhostUserVringState"), "Call::SetVringBase({0}.index, {0}.num)".format(dec("VhostUserVringState")), None),
    "SET_VRING_CALL": (13, "true", "(hdr.size == 8 && req_ok(hdr) && (if vring_fd_value(buf@) & 0x100 == 0 { %s } else { files is None }))" % ONE_FILE,
                       "Call::SetVringCall(vring_fd_value(buf@) as u8, if vring_fd_value(buf@) & 0x100 == 0 { seq![%s] } else { Seq::<int>::empty() })" % F0, None),
    "SET_VRING_KICK": (12, "true", "(hdr.size == 8 && req_ok(hdr) && (if vring_fd_value(buf@) & 0x100 == 0 { %s } else { files is None }))" % ONE_FILE,
                       "Call::SetVringKick(vring_fd_value(buf@) as u8, if vring_fd_value(buf@) & 0x100 == 0 { seq![%s] } else { Seq::<int>::empty() })" % F0, None),
    "SET_VRING_ERR": (14, "true", "(hdr.size == 8 && req_ok(hdr) && (if vring_fd_value(buf@) & 0x100 == 0 { %s } else { files is None }))" % ONE_FILE,
                      "Call::SetVringErr(vring_fd_value(buf@) as u8, if vring_fd_value(buf@) & 0x100 == 0 { seq![%s] } else { Seq::<int>::empty() })" % F0, None),
    "SET_PROTOCOL_FEATURES": (16, "true", body_ok("VhostUserU64"), "Call::SetProtocolFeatures(%s.value)" % dec("VhostUserU64"),
                              "final(self).acked_protocol_features == %s.value && final(self).virtio_features == old(self).virtio_features && final(self).acked_virtio_features == old(self).acked_virtio_features" % dec("VhostUserU64")),
    "SET_VRING_ENABLE": (18, "(old(self).acked_virtio_features & 0x4000_0000 != 0)",
                         "(%s && %s.num <= 1)" % (body_ok("VhostUserVringState"), dec("VhostUserVringState")),
                         "Call::SetVringEnable({0}.index, {0}.num == 1)".format(dec("VhostUserVringState")), None),
    "SET_CONFIG": (25, PF(9), "config_req_ok(buf@)",
                   "Call::SetConfig(config_of(buf@).offset, buf@.subrange(12, buf@.len() as int), config_of(buf@).flags)", None, "req_ok(hdr)"),
    "SET_INFLIGHT_FD": (32, PF(12), "(%s && %s)" % (ONE_FILE, body_ok("VhostUserInflight")),
                        "Call::SetInflightFd(%s, %s)" % (dec("VhostUserInflight"), F0), None),
    "GPU_SET_SOCKET": (33, "true", ONE_FILE, "Call::SetGpuSocket(%s)" % F0, None, "(true)"),
    "ADD_MEM_REG": (37, PF(15), "(%s && %s)" % (ONE_FILE, body_ok("VhostUserSingleMemoryRegion")),
                    "Call::AddMemRegion(%s, %s)" % (dec("VhostUserSingleMemoryRegion"), F0), None),
    "REM_MEM_REG": (38, PF(15), body_ok("VhostUserSingleMemoryRegion"), "Call::RemoveMemRegion(%s)" % dec("VhostUserSingleMemoryRegion"), None),
}

# reply-bearing arms with a u64 / struct value taken from the handler; handler Err -> nothing on the wire
VALUE_ARMS = {
    # pattern -> (code, gate, valid, call, ok-pattern, reply frame expr, extra negotiation effect)
    "GET_QUEUE_NUM": (17, PF(0), SZ0, "Call::GetQueueNum", "Ret::U64(v)", "reply_frame(hdr, VhostUserU64 { value: v }, Seq::<u8>::empty(), Seq::<int>::empty())", None),
    "GET_MAX_MEM_SLOTS": (36, PF(15), SZ0, "Call::GetMaxMemSlots", "Ret::U64(v)", "reply_frame(hdr, VhostUserU64 { value: v }, Seq::<u8>::empty(), Seq::<int>::empty())", None),
    "GET_VRING_BASE": (11, "true", body_ok("VhostUserVringState"), "Call::GetVringBase(%s.index)" % dec("VhostUserVringState"),
                       "Ret::State(v)", "reply_frame(hdr, v, Seq::<u8>::empty(), Seq::<int>::empty())", None),
    "GET_SHMEM_CONFIG": (44, PF(21), "true", "Call::GetShmemConfig", "Ret::ShMem(v)", "reply_frame(hdr, v, Seq::<u8>::empty(), Seq::<int>::empty())", None),
    "GET_INFLIGHT_FD": (31, PF(12), body_ok("VhostUserInflight"), "Call::GetInflightFd(%s)" % dec("VhostUserInflight"),
                        "Ret::Inflight(v, fd)", "reply_frame(hdr, v, Seq::<u8>::empty(), seq![fd])", None),
    "SET_LOG_BASE": (6, PF(1), "(%s && %s)" % (ONE_FILE, body_ok("VhostUserLog")), "Call::SetLogBase(%s, %s)" % (dec("VhostUserLog"), F0),
                     "Ret::OkUnit", "reply_frame(hdr, %s, Seq::<u8>::empty(), Seq::<int>::empty())" % dec("VhostUserLog"), None),
}

NEG_SAME = "neg_unchanged(*old(self), *final(self))"


def arm_contract_ack(code, gate, valid, call, neg, early="true"):
    """gate / early: failure => error, nothing done at all.
    valid (late, checked by a helper after the point of no return): failure => error, handler untouched,
    and a FAILURE acknowledgement under the ack rule (that is what the protocol's reply-ack asks for)."""
    neg_ok = neg or NEG_SAME
    if early != "true":
        return """
        requires arm_pre(*old(self), hdr, size, buf@, files), hdr.request == %(code)d, buf@.len() == size
        ensures
            rx_same(*old(self), *final(self)), srv_inv(*final(self)), %(same)s, // [C04]
            !(%(gate)s) ==> r is Err && nothing_done(*old(self), *final(self)), // [C07]
            !(%(early)s) ==> r is Err && nothing_done(*old(self), *final(self)), // [C05]
            (%(gate)s && %(early)s && !(%(valid)s)) ==> r is Err && final(self).backend == old(self).backend
                && ack_rule(*old(self), *final(self), hdr, false), // [C05,C04]
            (%(gate)s && %(early)s && %(valid)s) ==> called(*old(self), *final(self), %(call)s), // [C02,C09]
            (%(gate)s && %(early)s && %(valid)s) ==> ack_rule(*old(self), *final(self), hdr, ret_ok(*final(self))), // [C04,C03]
            (%(gate)s && %(early)s && %(valid)s) ==> res_rule(*final(self), r, ret_ok(*final(self))), // [C03]
""" % dict(code=code, gate=gate, valid=valid, call=call, same=NEG_SAME, early=early)
    return """
        requires arm_pre(*old(self), hdr, size, buf@, files), hdr.request == %(code)d, buf@.len() == size
        ensures
            rx_same(*old(self), *final(self)), srv_inv(*final(self)), // [C04]
            !(%(gate)s) ==> r is Err && nothing_done(*old(self), *final(self)) && %(same)s, // [C07]
            !(%(valid)s) ==> r is Err && nothing_done(*old(self), *final(self)) && %(same)s, // [C05]
            (%(gate)s && %(valid)s) ==> called(*old(self), *final(self), %(call)s), // [C02,C09]
            (%(gate)s && %(valid)s) ==> ack_rule(*old(self), *final(self), hdr, ret_ok(*final(self))), // [C04,C03]
            (%(gate)s && %(valid)s) ==> res_rule(*final(self), r, ret_ok(*final(self))), // [C03]
            (%(gate)s && %(valid)s) ==> %(neg)s && final(self).error == old(self).error, // [C04,C07]
""" % dict(code=code, gate=gate, valid=valid, call=call, neg=neg_ok, same=NEG_SAME)


def arm_contract_value(code, gate, valid, call, okpat, frame, neg):
    return """
        requires arm_pre(*old(self), hdr, size, buf@, files), hdr.request == %(code)d, buf@.len() == size
        ensures
            rx_same(*old(self), *final(self)), srv_inv(*final(self)), %(same)s, // [C04]
            !(%(gate)s) ==> r is Err && nothing_done(*old(self), *final(self)), // [C07]
            !(%(valid)s) ==> r is Err && nothing_done(*old(self), *final(self)), // [C05]
            (%(gate)s && %(valid)s) ==> called(*old(self), *final(self), %(call)s), // [C02,C09]
            (%(gate)s && %(valid)s) ==> (final(self).main_sock.io_failed@ || match final(self).backend.rets@.last() {
                %(okpat)s => r is Ok && sent_one(*old(self), *final(self), %(frame)s),
                _ => r is Err && sent_nothing(*old(self), *final(self)),
            }), // [C03,C04,C01]
""" % dict(code=code, gate=gate, valid=valid, call=call, okpat=okpat, frame=frame, same=NEG_SAME)


CUSTOM_ARMS = {
    "GET_FEATURES": """
        requires arm_pre(*old(self), hdr, size, buf@, files), hdr.request == 1, buf@.len() == size
        ensures
            rx_same(*old(self), *final(self)), srv_inv(*final(self)), // [C04]
            !%(SZ0)s ==> r is Err && nothing_done(*old(self), *final(self)) && %(same)s, // [C05]
            %(SZ0)s ==> called(*old(self), *final(self), Call::GetFeatures), // [C02]
            %(SZ0)s ==> (final(self).main_sock.io_failed@ || match final(self).backend.rets@.last() {
                Ret::U64(v) => r is Ok && sent_one(*old(self), *final(self), reply_frame(hdr, VhostUserU64 { value: v }, Seq::<u8>::empty(), Seq::<int>::empty()))
                    && final(self).virtio_features == v && final(self).acked_virtio_features == old(self).acked_virtio_features
                    && final(self).acked_protocol_features == old(self).acked_protocol_features,
                _ => r is Err && sent_nothing(*old(self), *final(self)) && %(same)s,
            }), // [C03,C04,C07,C01]
""" % dict(SZ0=SZ0, same=NEG_SAME),
    "GET_PROTOCOL_FEATURES": """
        requires arm_pre(*old(self), hdr, size, buf@, files), hdr.request == 15, buf@.len() == size
        ensures
            rx_same(*old(self), *final(self)), srv_inv(*final(self)), %(same)s, // [C04]
            !%(SZ0)s ==> r is Err && nothing_done(*old(self), *final(self)), // [C05]
            %(SZ0)s ==> called(*old(self), *final(self), Call::GetProtocolFeatures), // [C02]
            %(SZ0)s ==> (final(self).main_sock.io_failed@ || match final(self).backend.rets@.last() {
                Ret::U64(v) => r is Ok && sent_one(*old(self), *final(self), reply_frame(hdr, VhostUserU64 { value: v | 8 }, Seq::<u8>::empty(), Seq::<int>::empty())), // REPLY_ACK always offered
                _ => r is Err && sent_nothing(*old(self), *final(self)),
            }), // [C03,C04,C07,C01]
""" % dict(SZ0=SZ0, same=NEG_SAME),
    "GET_CONFIG": """
        requires arm_pre(*old(self), hdr, size, buf@, files), hdr.request == 24, buf@.len() == size
        ensures
            rx_same(*old(self), *final(self)), srv_inv(*final(self)), %(same)s, // [C04]
            !%(gate)s ==> r is Err && nothing_done(*old(self), *final(self)), // [C07]
            !(req_ok(hdr) && config_req_ok(buf@)) ==> r is Err && nothing_done(*old(self), *final(self)), // [C05]
            (%(gate)s && req_ok(hdr) && config_req_ok(buf@)) ==> called(*old(self), *final(self), Call::GetConfig(config_of(buf@).offset, config_of(buf@).size, config_of(buf@).flags)), // [C02]
            (%(gate)s && req_ok(hdr) && config_req_ok(buf@)) ==> (final(self).main_sock.io_failed@ || (r is Ok && match final(self).backend.rets@.last() {
                Ret::Bytes(b) => if b.len() == config_of(buf@).size {
                        sent_one(*old(self), *final(self), reply_frame(hdr, VhostUserConfig { offset: config_of(buf@).offset, size: config_of(buf@).size, flags: config_of(buf@).flags }, b, Seq::<int>::empty()))
                    } else {
                        sent_one(*old(self), *final(self), reply_frame(hdr, VhostUserConfig { offset: config_of(buf@).offset, size: 0, flags: config_of(buf@).flags }, Seq::<u8>::empty(), Seq::<int>::empty()))
                    },
                _ => sent_one(*old(self), *final(self), reply_frame(hdr, VhostUserConfig { offset: config_of(buf@).offset, size: 0, flags: config_of(buf@).flags }, Seq::<u8>::empty(), Seq::<int>::empty())),
            })), // [C03,C04,C01]
""" % dict(gate=PF(9), same=NEG_SAME),
    "SET_BACKEND_REQ_FD": """
        requires arm_pre(*old(self), hdr, size, buf@, files), hdr.request == 21, buf@.len() == size
        ensures
            rx_same(*old(self), *final(self)), srv_inv(*final(self)), %(same)s, // [C04]
            !%(gate)s ==> r is Err && nothing_done(*old(self), *final(self)), // [C07]
            !(req_ok(hdr)) ==> r is Err && nothing_done(*old(self), *final(self)), // [C05]
            (%(gate)s && req_ok(hdr) && !%(one)s) ==> final(self).backend == old(self).backend && ack_rule(*old(self), *final(self), hdr, false) && r is Err, // [C05,C09,C04]
            (%(gate)s && req_ok(hdr) && %(one)s) ==> called(*old(self), *final(self), Call::SetBackendReqFd(%(f0)s))
                && ack_rule(*old(self), *final(self), hdr, true) && res_rule(*final(self), r, true), // [C02,C09,C04,C03]
""" % dict(gate=PF(5), same=NEG_SAME, one=ONE_FILE, f0=F0),
    "GET_SHARED_OBJECT": """
        requires arm_pre(*old(self), hdr, size, buf@, files), hdr.request == 41, buf@.len() == size
        ensures
            rx_same(*old(self), *final(self)), srv_inv(*final(self)), %(same)s, // [C04]
            !%(gate)s ==> r is Err && nothing_done(*old(self), *final(self)), // [C07]
            !%(valid)s ==> r is Err && nothing_done(*old(self), *final(self)), // [C05]
            (%(gate)s && %(valid)s) ==> called(*old(self), *final(self), Call::GetSharedObject(%(msg)s)), // [C02]
            (%(gate)s && %(valid)s) ==> (final(self).main_sock.io_failed@ || (r is Ok && match final(self).backend.rets@.last() {
                Ret::FileId(fd) => sent_one(*old(self), *final(self), reply_frame(hdr, VhostUserEmpty, Seq::<u8>::empty(), seq![fd])),
                _ => sent_one(*old(self), *final(self), reply_frame(hdr, VhostUserEmpty, Seq::<u8>::empty(), Seq::<int>::empty())),
            })), // [C03,C04,C01]
""" % dict(gate=PF(18), same=NEG_SAME, valid=body_ok("VhostUserSharedMsg"), msg=dec("VhostUserSharedMsg")),
    "SET_DEVICE_STATE_FD": """
        requires arm_pre(*old(self), hdr, size, buf@, files), hdr.request == 42, buf@.len() == size
        ensures
            rx_same(*old(self), *final(self)), srv_inv(*final(self)), %(same)s, // [C04]
            !(%(one)s && %(valid)s) ==> r is Err && nothing_done(*old(self), *final(self)), // [C05,C09]
            (%(one)s && %(valid)s) ==> called(*old(self), *final(self), Call::SetDeviceStateFd(%(msg)s.direction, %(msg)s.phase, %(f0)s)), // [C02,C09]
            (%(one)s && %(valid)s) ==> (final(self).main_sock.io_failed@ || (r is Ok && match final(self).backend.rets@.last() {
                Ret::OptFile(None) => sent_one(*old(self), *final(self), reply_frame(hdr, VhostUserU64 { value: 0x100 }, Seq::<u8>::empty(), Seq::<int>::empty())),
                Ret::OptFile(Some(fd)) => sent_one(*old(self), *final(self), reply_frame(hdr, VhostUserU64 { value: 0 }, Seq::<u8>::empty(), seq![fd])),
                _ => sent_one(*old(self), *final(self), reply_frame(hdr, VhostUserU64 { value: 0x101 }, Seq::<u8>::empty(), Seq::<int>::empty())),
            })), // [C03,C04,C01]
""" % dict(same=NEG_SAME, one=ONE_FILE, valid=body_ok("VhostUserTransferDeviceState"), msg=dec("VhostUserTransferDeviceState"), f0=F0),
    "CHECK_DEVICE_STATE": """
        requires arm_pre(*old(self), hdr, size, buf@, files), hdr.request == 43, buf@.len() == size
        ensures
            rx_same(*old(self), *final(self)), srv_inv(*final(self)), %(same)s, // [C04]
            called(*old(self), *final(self), Call::CheckDeviceState), // [C02]
            final(self).main_sock.io_failed@ || (r is Ok && sent_one(*old(self), *final(self),
                reply_frame(hdr, VhostUserU64 { value: if ret_ok(*final(self)) { 0u64 } else { 1u64 } }, Seq::<u8>::empty(), Seq::<int>::empty()))), // [C03,C04,C01]
""" % dict(same=NEG_SAME),
    "_": """
        requires arm_pre(*old(self), hdr, size, buf@, files)
        ensures r is Err, *final(self) == *old(self), // [C02,C04,C05] unsupported request: error, handler untouched, nothing written
""",
}

R6_ARM = [
    ("R6", r'take_single_file\(files\)\.ok_or\(Error::IncorrectFds\)\?', 'ok_or_incorrect_fds(take_single_file(files))?'),
    ("R6", r'files\.ok_or\(Error::InvalidParam\)\?', 'ok_or_invalid_param(files)?'),
    ("R6", r'msg\s*\.direction\s*\.try_into\(\)\s*\.map_err\(\|_\|\s*Error::InvalidMessage\)\?', 'direction_try_into(msg.direction)?'),
    ("R6", r'msg\.phase\.try_into\(\)\.map_err\(\|_\|\s*Error::InvalidMessage\)\?', 'phase_try_into(msg.phase)?'),
    ("R14", r'let features\s*=\s*self\.backend\.get_protocol_features\(\)\?\s*\|\s*VhostUserProtocolFeatures::REPLY_ACK;',
     'let features = self.backend.get_protocol_features()? | VhostUserProtocolFeatures::REPLY_ACK;'),
]


def build():
    u = Unit("backend")
    msg = Source(MSG)
    brh = Source(BRH)
    mod = Source(MOD)
    u.raw("use vstd::prelude::*;\nverus! {\n")
    u.env("common.rs")
    gen_enums(u, msg)
    gen_flag_consts_check(u, msg)
    gen_bodies(u, msg)
    u.env("backend.rs")
    u.env("backend_specs.rs")
    u.env("backend_specs2.rs")
    # take_single_file (mod.rs)
    u.extracted_fn(mod, "take_single_file", contract="""
        ensures match files { Some(v) => if v@.len() == 1 { r is Some && r->Some_0.id@ == v@[0].id@ } else { r is None }, None => r is None } // [C09,C02,C05] exactly one descriptor, or none is taken""")
    span = brh.impl_span(r'impl<S: VhostUserBackendReqHandler> BackendReqHandler<S>$')
    u.raw("impl BackendReqHandler {")
    # the request server's initial state (third session): nothing offered, nothing acknowledged, no reply-ack, no failure - the
    # closed position every "only after negotiation" gate (C07) starts from; it talks on the socket and to the handler it was given
    u.extracted_fn(brh, "new", within=span,
                   sig_rw=[("R3", r'Endpoint<VhostUserMsgHeader<FrontendReq>>', 'Endpoint<FrontendReq>'), ("R3", r'Arc<S>', 'HandlerStub'), ("R3", r'-> Self\b', '-> BackendReqHandler')],
                   contract="""
        ensures r.main_sock == main_sock, r.backend == backend, r.virtio_features == 0, r.acked_virtio_features == 0, r.acked_protocol_features == 0,
            !r.reply_ack_enabled, r.error is None, // [C07:server-starts-closed,C04] no feature is offered or acknowledged on a new server, acknowledgements are off, no failure recorded""")
    for name, kw in HELPERS:
        kw = dict(kw)
        rw = [("R3", r'\.map_err\(Into::into\)', '')]
        u.extracted_fn(brh, name, within=span, contract=kw.get("contract", ""), sig_rw=kw.get("sig_rw"),
                       body_rw=(kw.get("body_rw") or []) + R6_ARM + [
                           ("R6", r'take_single_file\(files\)\.ok_or\(Error::InvalidMessage\)\?', 'ok_or_invalid_message(take_single_file(files))?'),
                           ("R6", r'files\.ok_or\(Error::InvalidMessage\)\?', 'ok_or_invalid_message(files)?'),
                           ("R6", r'VhostUserConfigFlags::from_bits\(msg\.flags\)\.ok_or\(Error::InvalidMessage\)\?', 'ok_or_invalid_message(VhostUserConfigFlags::from_bits(msg.flags))?'),
                       ], loops=kw.get("loops"))
    # prologue + arms of handle_request
    body = brh.fn_body("handle_request", within=span)
    u.spans.append((BRH, "handle_request", __import__("vx").sha(body)))
    pro, arms, epi = split_match_arms(body, r'match\s+hdr\.get_code\(\)\s*\{')
    if u.rw.common(epi).strip() != "Ok(())":
        raise ExtractError("handle_request: unexpected epilogue after the dispatch: %r" % epi.strip()[:80])
    pro_t = u.rewrite_body(pro, [("R15", r'vec!\[0u8;\s*0\]', 'Vec::new()')])
    u.functions.append("prologue")
    u.raw("""//@begin-extracted %s::handle_request (statements before the dispatch)
    fn prologue(&mut self) -> (r: Result<(VhostUserMsgHeader<FrontendReq>, usize, Vec<u8>, Option<Vec<File>>)>)
        requires srv_inv(*old(self)), !old(self).main_sock.io_failed@
        ensures
            final(self).backend == old(self).backend, neg_unchanged(*old(self), *final(self)), sent_nothing(*old(self), *final(self)), // [C04,C05]
            r is Ok ==> arm_pre(*final(self), r->Ok_0.0, r->Ok_0.1, r->Ok_0.2@, r->Ok_0.3) && r->Ok_0.2@.len() == r->Ok_0.1, // [C05]
            r is Ok ==> (takes_fds(r->Ok_0.0.request) || r->Ok_0.3 is None), // [C05,C09]
            // exactly one header and exactly the declared number of body bytes are consumed (C04, C08)
            r is Ok ==> final(self).main_sock.rx_hdrs@ == old(self).main_sock.rx_hdrs@ + 1
                && final(self).main_sock.rx_body@ == (if r->Ok_0.0.size == 0 { old(self).main_sock.rx_body@ } else { old(self).main_sock.rx_body@.push(r->Ok_0.0.size as nat) }), // [C04,C08]
            old(self).error is Some ==> r is Err && rx_same(*old(self), *final(self)), // [C05]
    {%s
        Ok((hdr, size, buf, files))
    }
//@end-extracted""" % (BRH, pro_t))
    seen = set()
    for arm in arms:
        if any('cfg(feature' in a for a in arm["attrs"]):
            u.rw._count("R2", 1)
            continue
        pat = re.sub(r'\s+', '', arm["pattern"])
        m = re.fullmatch(r'Ok\(FrontendReq::(\w+)\)', pat)
        key = m.group(1) if m else pat
        if key in ACK_ARMS:
            contract = arm_contract_ack(*ACK_ARMS[key])
        elif key in VALUE_ARMS:
            contract = arm_contract_value(*VALUE_ARMS[key])
        elif key in CUSTOM_ARMS:
            contract = CUSTOM_ARMS[key]
        else:
            raise ExtractError("handle_request: arm %s has no registered contract (new/renamed request arm)" % key)
        seen.add(key)
        text = arm["text"] if arm["is_block"] else arm["text"] + ";"
        text = u.rewrite_body(text, R6_ARM)
        fname = "arm_" + (key if key != "_" else "OTHER")
        u.functions.append(fname)
        u.raw("""//@begin-extracted %s::handle_request arm %s
    #[allow(unused_variables, unused_mut)]
    fn %s(&mut self, hdr: VhostUserMsgHeader<FrontendReq>, size: usize, buf: Vec<u8>, files: Option<Vec<File>>) -> (r: Result<()>)%s    {%s
        Ok(())
    }
//@end-extracted""" % (BRH, arm["pattern"].strip(), fname, contract, text))
    expected = set(ACK_ARMS) | set(VALUE_ARMS) | set(CUSTOM_ARMS)
    missing = expected - seen
    if missing:
        raise ExtractError("handle_request: registered arms missing from the dispatch: %s" % sorted(missing))
    u.raw("}")
    u.raw("fn main() {}\n} // verus!")
    return u
