"""Syntactic frame condition for C10 ("all calls complete (no self-deadlock)"): while a let-bound guard of the endpoint's
(non-reentrant) mutex is live, the same function makes no second acquisition of that mutex - neither directly (`.lock()`,
`self.node()`) nor through a `self.<method>(..)` of the same file whose body acquires it. `drop(<guard>)` ends the guard."""
import re
from units_own import non_test


def _fns(text):
    """[(name, body_start, body_end)] of every fn with a body in comment-free text"""
    out = []
    for m in re.finditer(r'\bfn\s+(\w+)', text):
        k = m.end()
        depth_p = 0
        # find the body's opening brace (skip the signature; a `;` first means a declaration)
        while k < len(text) and not (text[k] in '{;' and depth_p == 0):
            if text[k] in '(<[':
                depth_p += 1 if text[k] != '<' else 0
            elif text[k] in ')]':
                depth_p -= 1
            k += 1
        if k >= len(text) or text[k] == ';':
            continue
        ob, depth = k, 0
        while k < len(text):
            if text[k] == '{':
                depth += 1
            elif text[k] == '}':
                depth -= 1
                if depth == 0:
                    break
            k += 1
        out.append((m.group(1), ob, k))
    return out


DIRECT = r'\.lock\s*\(\s*\)|\bself\s*\.\s*node\s*\(\s*\)'


def double_acquisitions(text):
    """list of 'fn: second acquisition `..` while guard `g` is live'"""
    text = re.sub(r'"(?:[^"\\]|\\.)*"', '""', text)
    fns = _fns(text)
    acquiring = set(n for n, s, e in fns if re.search(DIRECT, text[s:e]))
    changed = True
    while changed:
        changed = False
        for n, s, e in fns:
            if n not in acquiring and any(re.search(r'\bself\s*\.\s*%s\s*\(' % re.escape(a), text[s:e]) for a in acquiring):
                acquiring.add(n)
                changed = True
    acq_re = DIRECT + ''.join(r'|\bself\s*\.\s*%s\s*\(' % re.escape(a) for a in sorted(acquiring))
    bad = []
    for n, s, e in fns:
        body = text[s:e]
        for g in re.finditer(r'\blet\s+(?:mut\s+)?(\w+)\s*(?::[^=;]+)?=\s*self\s*(?:\.\s*\w+\s*)?\.\s*(?:lock\s*\(\s*\)\s*\.\s*unwrap\s*\(\s*\)|node\s*\(\s*\))\s*;', body):
            ident, k, depth = g.group(1), g.end(), 0
            scope_end = len(body)
            while k < len(body):
                if body[k] == '{':
                    depth += 1
                elif body[k] == '}':
                    depth -= 1
                    if depth < 0:
                        scope_end = k
                        break
                k += 1
            live = body[g.end():scope_end]
            d = re.search(r'\bdrop\s*\(\s*%s\s*\)' % re.escape(ident), live)
            if d:
                live = live[:d.start()]
            a = re.search(acq_re, live)
            if a:
                bad.append("%s: `%s` while guard `%s` is live" % (n, re.sub(r'\s+', '', a.group(0)), ident))
    return bad


def scan_files(rw, files):
    from vx import Source
    bad = []
    for f in files:
        try:
            text = rw.strip_comments(non_test(Source(f).src))
        except Exception:
            continue
        bad += ["%s::%s" % (f, b) for b in double_acquisitions(text)]
    return bad
