"""Verus unit `rank` (C17): which worker owns a queue, which event id its kick carries and which element of the worker's ring
slice that id selects — for EVERY queues-per-thread configuration (any number of workers, any 64-bit masks, up to 64 queues):
  * VhostUserHandler::new (handler.rs): worker t gets thread id t and, as its slice, the rings whose bit is set in mask t, in
    increasing queue order;
  * VhostUserHandler::update_vring_registration: every (un)registration goes to the FIRST worker whose mask contains the queue,
    with event id popcount(mask) - popcount(mask >> q) == number of the mask's queues below q;
  * lemma_kick_routing: therefore slice[event id] IS queue q.
Thread spawn, Arc and the epoll calls are the assumed boundary (R23 / argument contracts); that the calls happen at all and
what the worker does with an event are Kani obligations on the real code (c11_*, c11_c17_handle_event_dispatch)."""
import re
from vx import Unit, Source

HND = "vhost-user-backend/src/handler.rs"

# `for (i, x) in v.iter().enumerate() {` -> a while loop whose counter `i_next` is advanced FIRST (so that a `continue` in the body
# keeps its meaning; Verus for-loops do not support `continue`), with `i` and `x` bound as in the original
R21_COPY = lambda v, i, x: ("R21", r'for \(%s, %s\) in %s\.iter\(\)\.enumerate\(\) \{' % (i, x, re.escape(v)),
                            'let mut %s_next: usize = 0; while %s_next < %s.len() { let %s = %s_next; %s_next += 1; let %s = %s[%s];' % (i, i, v, i, i, i, x, v, i))
R21_REF = lambda v, i, x: ("R21", r'for \(%s, %s\) in %s\.iter\(\)\.enumerate\(\) \{' % (i, x, re.escape(v)),
                           'let mut %s_next: usize = 0; while %s_next < %s.len() { let %s = %s_next; %s_next += 1; let %s = &%s[%s];' % (i, i, v, i, i, i, x, v, i))

HANDLER_FACTS = """self.handlers@.len() == self.queues_per_thread@.len(),
            forall|t: int| 0 <= t < self.handlers@.len() ==> (#[trigger] self.handlers@[t]).h.thread@ == t,
            forall|t: int| 0 <= t < self.handlers@.len() ==> is_owner(self.queues_per_thread@, index as int, (#[trigger] self.handlers@[t]).h.exp@.owner)
                && self.handlers@[t].h.exp@.evt == rank(self.queues_per_thread@[self.handlers@[t].h.exp@.owner], index as int),
            forall|t: int| 0 <= t < self.handlers@.len() ==> vring.st.kick is Some ==> (#[trigger] self.handlers@[t]).h.exp@.fd == vring.st.kick->Some_0.fd
                && self.handlers@[t].h.exp@.register == (vring.st.queue.ready && vring.st.enabled),"""


def build():
    u = Unit("rank")
    hnd = Source(HND)
    u.raw("use vstd::prelude::*;\nverus! {\nglobal size_of usize == 8;   // A-ARITH: 64-bit target\n")
    u.env("rank.rs")
    u.raw("impl VhostUserHandler {")
    span = hnd.impl_span(r'^impl<T> VhostUserHandler<T> where')
    u.extracted_fn(hnd, "new", within=span,
                   sig_rw=[("R3", r'backend: T\b', 'backend: BackendStub'), ("R3", r'GM<T::Bitmap>', 'GM'), ("R3", r'VhostUserHandlerResult<Self>', 'VhostUserHandlerResult<VhostUserHandler>')],
                   body_rw=[
                       ("R22", r'let mut vrings = Vec::new\(\);', 'let mut vrings: Vec<VringStub> = Vec::new();'),
                       ("R22", r'let mut handlers = Vec::new\(\);', 'let mut handlers: Vec<HandlerRef> = Vec::new();'),
                       ("R22", r'let mut worker_threads = Vec::new\(\);', 'let mut worker_threads: Vec<JoinHandle> = Vec::new();'),
                       ("R22", r'let mut thread_vrings = Vec::new\(\);', 'let mut thread_vrings: Vec<VringStub> = Vec::new();'),
                       ("R3", r'\bT::Vring::new\(', 'VringStub::new('),
                       ("R6", r'\.map_err\(VhostUserHandlerError::(\w+)\)', r'.map_err(|e| -> (o: VhostUserHandlerError) { VhostUserHandlerError::\1(e) })'),
                       R21_COPY("queues_per_thread", "thread_id", "queues_mask"),
                       R21_REF("vrings", "index", "vring"),
                       ("R23", r'\bArc::new\(', 'arc_new('),
                       ("R23", r'thread::Builder::new\(\)\s*\.name\("vring_worker"\.to_string\(\)\)\s*\.spawn\(move \|\| handler2\.run\(\)\)', 'spawn_worker(handler2)'),
                   ],
                   loops=[
                       dict(kind="for", nth=0, iter="it", text="            invariant vrings@.len() == it.index@, num_queues <= 64,"),
                       dict(kind="while", nth=0, text="""            invariant vrings@.len() == num_queues, num_queues <= 64, handlers@.len() == thread_id_next, thread_id_next <= queues_per_thread@.len(),
                forall|t: int| 0 <= t < thread_id_next ==> (#[trigger] handlers@[t]).h.thread@ == t && slice_ok(ids(vrings@), queues_per_thread@[t], handlers@[t].h.vrings@),
            decreases queues_per_thread@.len() - thread_id_next,"""),
                       dict(kind="while", nth=1, text="""                invariant vrings@.len() <= 64, index_next <= vrings@.len(), thread_vrings@.len() == rank(queues_mask, index_next as int),
                    forall|q: int| 0 <= q < index_next && bit(queues_mask, q) ==> (#[trigger] thread_vrings@[rank(queues_mask, q)]).id@ == vrings@[q].id@,
                decreases vrings@.len() - index_next,"""),
                   ],
                   hints=[
                       (r'let vring = &vrings\[index\];', """assert forall|q: int| 0 <= q < index && bit(queues_mask, q) implies rank(queues_mask, q) < rank(queues_mask, index as int) by { lemma_rank_mono(queues_mask, q + 1, index as int); }""", "after"),
                       (r'let handler = arc_new', """assert(slice_ok(ids(vrings@), queues_mask, ids(thread_vrings@))) by {
                    assert forall|q: int| 0 <= q < vrings@.len() && bit(queues_mask, q) implies #[trigger] ids(thread_vrings@)[rank(queues_mask, q)] == ids(vrings@)[q] by { lemma_rank_mono(queues_mask, q + 1, vrings@.len() as int); lemma_rank_bounds(queues_mask, q); }
                }"""),
                   ],
                   contract="""
        requires backend.nq <= 64   // A-NQ64: `mask >> queue index` is only meaningful below 64 queues (a larger count overflows the shift)
        ensures r is Ok ==> workers_ok(r->Ok_0), // [C17:slices] worker t has thread id t and its ring slice holds exactly the queues of mask t in increasing order
            r is Ok ==> r->Ok_0.vrings@.len() == backend.nq && r->Ok_0.num_queues == backend.nq && r->Ok_0.queues_per_thread@ == backend.masks@, // [C17] one ring per queue; the masks are the backend's""")
    u.extracted_fn(hnd, "update_vring_registration",
                   sig_rw=[("R3", r'&T::Vring', '&VringStub')],
                   body_rw=[R21_COPY("self.queues_per_thread", "thread_index", "queues_mask"),
                            ("R10", r'\bio::ErrorKind::', 'IoErrorKind::')],
                   loops=[dict(kind="while", nth=0, text="""                invariant_except_break
                    forall|u: int| 0 <= u < thread_index_next ==> !bit(#[trigger] self.queues_per_thread@[u], index as int),
                invariant index < 64, *vring_state == vring.st, vring.st.kick == Some(*fd), thread_index_next <= self.queues_per_thread@.len(),
            """ + HANDLER_FACTS + """
                decreases self.queues_per_thread@.len() - thread_index_next,""")],
                   hints=[(r'if shifted_queues_mask & 1u64 == 1u64 \{', """lemma_evt_idx(queues_mask, index as int); assert(is_owner(self.queues_per_thread@, index as int, thread_index as int));""", "after")],
                   contract="""
        requires index < 64,   // A-NQ64
            // argument contracts of the workers' register_event / unregister_event (rank.rs): a call is accepted only on the owning worker
            // (the FIRST mask containing the queue), with event id rank(mask, queue), the ring's kick descriptor and the right direction
            """ + HANDLER_FACTS + """
        ensures vring.st.kick is None ==> r is Ok, // [C17] nothing to register without a kick descriptor""")
    u.raw("}")
    u.functions.append("lemma_kick_routing")
    u.raw("""//@begin-extracted (lemma over contracts) kick routing
pub proof fn lemma_owner_unique(masks: Seq<u64>, q: int, a: int, b: int)
    requires is_owner(masks, q, a), is_owner(masks, q, b)
    ensures a == b // [C17:one-owner] a queue is handled by exactly one worker
{ if a < b { assert(!bit(masks[a], q)); } else if b < a { assert(!bit(masks[b], q)); } }
pub proof fn lemma_kick_routing(h: VhostUserHandler, q: int, t: int, evt: int)
    requires workers_ok(h), 0 <= q < h.vrings@.len() <= 64, is_owner(h.queues_per_thread@, q, t), evt == rank(h.queues_per_thread@[t], q),
    ensures h.handlers@[t].h.thread@ == t && 0 <= evt < h.handlers@[t].h.vrings@.len() && h.handlers@[t].h.vrings@[evt] == h.vrings@[q].id@, // [C17:routing] the registered event id selects queue q in the owning worker's slice
{
    let m = h.queues_per_thread@[t];
    lemma_rank_mono(m, q + 1, h.vrings@.len() as int); lemma_rank_bounds(m, q);
    assert(slice_ok(ids(h.vrings@), m, h.handlers@[t].h.vrings@));
    assert(h.handlers@[t].h.vrings@[rank(m, q)] == ids(h.vrings@)[q]);
}
//@end-extracted""")
    u.raw("fn main() {}\n} // verus!")
    return u
