"""Verus unit `exitev` (C16, C17): how a worker gets its exit event and how the daemon raises it.
  * VringEpollHandler::new (event_loop.rs): stores backend / rings / thread id unchanged (discharges the stub of unit `rank`); when the
    backend hands out an exit event for this thread, its consumer half is registered on the worker's epoll instance exactly once,
    readable, with event id == num_queues (the id handle_event treats as "exit": kani c11_c17_handle_event_dispatch), and the
    notifier half OF THE SAME PAIR is kept; a failed registration is an error (no worker without its exit event);
  * VringEpollHandler::send_exit_event: writes the kept notifier exactly once (nothing without an exit event);
  * VhostUserHandler::send_exit_event (handler.rs): every worker is told exactly once, in order (discharges the stub of unit `daemon`).
eventfd / epoll_ctl are the assumed boundary (A-OS / A-EPOLL)."""
from vx import Unit, Source

EVL = "vhost-user-backend/src/event_loop.rs"
HND = "vhost-user-backend/src/handler.rs"


def build():
    u = Unit("exitev")
    evl, hnd = Source(EVL), Source(HND)
    u.raw("use vstd::prelude::*;\nverus! {\nglobal size_of usize == 8;   // A-ARITH: 64-bit target\n")
    u.env("exitev.rs")
    u.raw("impl VringEpollHandler {")
    u.extracted_fn(evl, "new", within=evl.impl_span(r'^impl<T> VringEpollHandler<T>\s+where'),
                   sig_rw=[("R3", r'backend: T\b', 'backend: BackendStub'), ("R3", r'Vec<T::Vring>', 'Vec<VringStub>'),
                           ("R3", r'VringEpollResult<Self>', 'VringEpollResult<VringEpollHandler>')],
                   body_rw=[("R8", r'let epoll = Epoll::new\(\)', 'let mut epoll = Epoll::new()'),
                            ("R6", r'\.map_err\(VringEpollError::(\w+)\)', r'.map_err(|e: IoError| -> (o: VringEpollError) ensures o == VringEpollError::\1(e) { VringEpollError::\1(e) })'),
                            ("R10", r'\bEventSet::IN\b', 'EventSet::in_set()')],
                   contract="""
        ensures
            r is Ok ==> r->Ok_0.backend == backend && r->Ok_0.vrings == vrings && r->Ok_0.thread_id == thread_id, // [C17:worker-stores-arguments,C11] the worker keeps the backend, ITS ring slice and ITS thread id
            r is Ok ==> match exit_pair_of(backend, thread_id) {
                Some(pair) => r->Ok_0.exit_event_fd == Some(pair.1)
                    && r->Ok_0.epoll.calls@ =~= seq![CtlCall { op: ControlOperation::Add, fd: pair.0.fd, events: 1u32, data: backend.nq as u64 }],
                None => r->Ok_0.exit_event_fd is None && r->Ok_0.epoll.calls@ =~= Seq::<CtlCall>::empty(),
            }, // [C16:exit-event-registered,C17:exit-id-is-num-queues] the consumer half of the backend's exit event for THIS thread is registered once, readable, with id num_queues; the notifier half of the same pair is kept""")
    u.extracted_fn(evl, "send_exit_event", within=evl.impl_span(r'^impl<T: VhostUserBackend> VringEpollHandler<T>'),
                   sig_rw=[("R8", r'&self\b', '&self, log: &mut ExitLog')],
                   body_rw=[("R8", r'\beventfd\.notify\(\)', 'eventfd.notify_logged(log)')],
                   contract="""
        ensures final(log).notified@ == (match self.exit_event_fd { Some(n) => old(log).notified@.push(n.ev@), None => old(log).notified@ }), // [C16:worker-exit-event-raised] the worker's own exit event is written exactly once""")

    # ---- (un)registration of descriptors on the worker's epoll instance: exactly one epoll_ctl with the caller's descriptor,
    # event set and data word (the contract behind the argument-contract stubs of unit `rank`); listener ids are the non-reserved
    # 16-bit ones
    wspan = evl.impl_span(r'^impl<T> VringEpollHandler<T>\s+where')
    for fn, op in (("register_event", "Add"), ("unregister_event", "Delete")):
        u.extracted_fn(evl, fn, within=wspan,
                       sig_rw=[("R8", r'&self\b', '&mut self'), ("R10", r'-> Result<\(\)>', '-> core::result::Result<(), IoError>')],
                       contract="""
        ensures
            r is Ok ==> final(self).epoll.calls@ == old(self).epoll.calls@.push(CtlCall { op: ControlOperation::%s, fd, events: ev_type.bits, data }), // [C17:registration-carries-the-id,C11] one epoll_ctl(%s) with the caller's descriptor, event set and id
            r is Err ==> final(self).epoll.calls@ == old(self).epoll.calls@,
            final(self).backend == old(self).backend, final(self).vrings == old(self).vrings, final(self).thread_id == old(self).thread_id, final(self).exit_event_fd == old(self).exit_event_fd,""" % (op, op))
    for fn, inner, op in (("register_listener", "register_event", "Add"), ("unregister_listener", "unregister_event", "Delete")):
        u.extracted_fn(evl, fn, within=wspan,
                       sig_rw=[("R8", r'&self\b', '&mut self'), ("R10", r'-> Result<\(\)>', '-> core::result::Result<(), IoError>')],
                       body_rw=[("R10", r'\bio::Error::from_raw_os_error\(libc::EINVAL\)', 'IoError { errno: 22 }'),
                                ("R10", r'u64::from\(u16::MAX\)', '(u16::MAX as u64)')],
                       contract="""
        ensures
            data <= old(self).backend.nq as u64 || data > 0xffff ==> r is Err && final(self).epoll.calls@ == old(self).epoll.calls@, // [C17:listener-ids] ids reserved for the queues and the exit event, and ids that do not fit 16 bits, are refused without touching the epoll set
            r is Ok ==> final(self).epoll.calls@ == old(self).epoll.calls@.push(CtlCall { op: ControlOperation::%s, fd, events: ev_type.bits, data }), // [C17:listener-ids] an accepted id is (un)registered unchanged
            r is Err ==> final(self).epoll.calls@ == old(self).epoll.calls@,""" % op)
    u.raw("}")
    u.raw("impl VhostUserHandler {")
    u.extracted_fn(hnd, "send_exit_event", within=hnd.impl_span(r'^impl<T: VhostUserBackend> VhostUserHandler<T>'),
                   sig_rw=[("R8", r'&self\b', '&self, log: &mut ExitLog')],
                   body_rw=[# the same loop written with an iterator adapter (refactoring C16-5): one call per element, in order
                            ("R21", r'self\.handlers\s*\.iter\(\)\s*\.for_each\(\|(\w+)\| \1\.send_exit_event\(\)\);',
                             'let mut k: usize = 0; while k < self.handlers.len() { let handler = &self.handlers[k]; k += 1; handler.send_exit_event(log); }'),
                            ("R8", r'\bhandler\.send_exit_event\(\)', 'handler.send_exit_event(log)'),
                            ("R21", r'for handler in self\.handlers\.iter\(\) \{', 'let mut k: usize = 0; while k < self.handlers.len() { let handler = &self.handlers[k]; k += 1;')],
                   loops=[dict(kind="while", nth=0, text="""            invariant k <= self.handlers@.len(), log.notified@ =~= old(log).notified@ + exit_ids(self.handlers@, k as int),
            decreases self.handlers@.len() - k,""")],
                   contract="""
        ensures final(log).notified@ =~= old(log).notified@ + exit_ids(self.handlers@, self.handlers@.len() as int), // [C16:every-worker-exit-event-raised] every worker that has an exit event is told exactly once, in worker order""")
    # Drop for VhostUserHandler: every worker is told to exit BEFORE any worker is joined (a join before the exit events blocks for ever:
    # the precondition of join_after_exit), and every worker thread is joined
    u.extracted_fn(hnd, "drop", within=hnd.impl_span(r'^impl<T: VhostUserBackend> Drop for VhostUserHandler<T>'),
                   sig_rw=[("R8", r'&mut self\b', '&mut self, log: &mut ExitLog')],
                   body_rw=[("R8", r'\bself\.send_exit_event\(\)', 'self.send_exit_event(log)'),
                            ("R21", r'for thread in self\.worker_threads\.drain\(\.\.\) \{', 'while self.worker_threads.len() > 0 { let thread = self.worker_threads.remove(0);'),
                            ("R8", r'\bthread\.join\(\)', 'thread.join_after_exit(&self.handlers, log)'),
                            ("R6", r'error!\("Error in vring worker: \{:\?\}", e\);', '')],
                   loops=[dict(kind="while", nth=0, text="""            invariant self.handlers == old(self).handlers,
                forall|i: int| 0 <= i < self.worker_threads@.len() ==> 0 <= (#[trigger] self.worker_threads@[i]).worker@ < self.handlers@.len(),
                forall|t: int| 0 <= t < self.handlers@.len() && (#[trigger] self.handlers@[t]).exit_event_fd is Some ==> log.notified@.contains(self.handlers@[t].exit_event_fd->Some_0.ev@),
            decreases self.worker_threads@.len(),""")],
                   hints=[(r'while self\.worker_threads\.len\(\) > 0', """assert forall|t: int| 0 <= t < self.handlers@.len() && (#[trigger] self.handlers@[t]).exit_event_fd is Some implies log.notified@.contains(self.handlers@[t].exit_event_fd->Some_0.ev@) by {
                lemma_exit_ids_contains(self.handlers@, self.handlers@.len() as int, t);
                lemma_concat_contains(old(log).notified@, exit_ids(self.handlers@, self.handlers@.len() as int), self.handlers@[t].exit_event_fd->Some_0.ev@);
            }""")],
                   contract="""
        requires forall|i: int| 0 <= i < old(self).worker_threads@.len() ==> 0 <= (#[trigger] old(self).worker_threads@[i]).worker@ < old(self).handlers@.len(), // every worker thread runs one of the handlers (VhostUserHandler::new, unit rank)
        ensures final(self).worker_threads@.len() == 0, // [C16:teardown-joins-every-worker] no worker thread is left running
            final(log).notified@ =~= old(log).notified@ + exit_ids(old(self).handlers@, old(self).handlers@.len() as int), // [C16:teardown-exit-before-join] every worker's exit event is written once - and (precondition of the join) before that worker is joined""")
    u.raw("}")
    u.raw("fn main() {}\n} // verus!")
    return u
