"""Verus unit: vhost/src/vhost_user/gpu_backend_req.rs (vhost-user-gpu proxy)."""
import re
from vx import Unit, Source, ExtractError, parse_enum_value, gen_req_enum

GB = "vhost/src/vhost_user/gpu_backend_req.rs"
GM = "vhost/src/vhost_user/gpu_message.rs"
O = "old(self).inner"
N = "final(self).inner"
E8 = "Seq::<u8>::empty()"
NF = "Seq::<int>::empty()"

BODY_RW = [
    ("R6", r'\.map_err\(io_err_convert_fn\("[^"]*"\)\)', '.map_err(|e: Error| -> (o: IoError) { io_err(e) })'),
    ("R6", r'Err\(io_err_convert_fn\("[^"]*"\)\(\s*Error::SocketBroken\(\s*io::Error::from_raw_os_error\(e\),?\s*\)\s*\)\)', 'Err(io_err(Error::SocketBroken(IoError::Os(e))))'),
    ("R6", r'Err\(io_err_convert_fn\("[^"]*"\)\(Error::InvalidMessage\)\)', 'Err(io_err(Error::InvalidMessage))'),
    ("R12", r'let fd = fd\.map\(AsRawFd::as_raw_fd\);\s*let fd = fd\.as_ref\(\)\.map\(slice::from_ref\);', 'let fd = opt_fd_slice(fd);'),
    ("R10", r'io::Result<', 'IoResult<'),
]
SIG_RW = [("R8", r'&self\b', '&mut self'), ("R10", r'io::Result<', 'IoResult<'),
          ("R3", r'VhostUserGpuMsgHeader<GpuBackendReq>', 'VhostUserGpuMsgHeader'), ("R16", r'Option<&impl AsRawFd>', 'Option<&AsRawFdStub>'),
          ("R5", r'V:\s*ByteValued\s*\+\s*Sized\s*\+\s*Default\s*\+\s*VhostUserMsgValidator', 'V: VhostUserMsgValidator'),
          ("R16", r'&\[u8; 4 \* 64 \* 64\]', '&[u8]')]


def send_only(code, size, body, payload=E8, fds=NF, pre=""):
    return """
        requires !gfailed(%(O)s)%(pre)s
        ensures final(self).acq@ <= old(self).acq@ + 1, // [C10]
            %(O)s.error is Some ==> r is Err && glog(%(N)s) == glog(%(O)s) && !gfailed(%(N)s),
            %(O)s.error is None ==> g_send_only(%(O)s, %(N)s, gfr(%(code)d, %(size)s, %(body)s, %(payload)s, %(fds)s), r is Ok), // [C01,C10] one frame, flags 0, nothing awaited
""" % dict(O=O, N=N, code=code, size=size, body=body, payload=payload, fds=fds, pre=pre)


def send_recv(code, size, body, ty):
    return """
        requires !gfailed(%(O)s)
        ensures final(self).acq@ <= old(self).acq@ + 1, // [C10]
            %(O)s.error is Some ==> r is Err && glog(%(N)s) == glog(%(O)s) && !gfailed(%(N)s),
            %(O)s.error is None ==> g_send_recv(%(O)s, %(N)s, gfr(%(code)d, %(size)s, %(body)s, %(E8)s, %(NF)s), r is Ok), // [C01,C06,C10] request then exactly its reply, under one guard
            r is Ok ==> r->Ok_0 == %(ty)s::decode(glast(%(N)s).body), // [C06] never a fabricated value
""" % dict(O=O, N=N, code=code, size=size, body=body, E8=E8, NF=NF, ty=ty)


METHODS = {
    "get_protocol_features": send_recv(1, "0", E8, "VhostUserU64"),
    "set_protocol_features": send_only(2, "8", "msg.bytes()"),
    "get_display_info": send_recv(3, "0", E8, "VirtioGpuRespDisplayInfo"),
    "get_edid": send_recv(11, "4", "get_edid.bytes()", "VirtioGpuRespGetEdid"),
    "set_scanout": send_only(7, "12", "scanout.bytes()"),
    "update_scanout": send_only(8, "20 + data@.len()", "update.bytes()", "data@", pre=", data@.len() <= 0xffff_0000"),
    "set_dmabuf_scanout": send_only(9, "40", "scanout.bytes()", fds="(match fd { Some(f) => seq![f.fd as int], None => Seq::<int>::empty() })"),
    "set_dmabuf_scanout2": send_only(12, "48", "scanout.bytes()", fds="(match fd { Some(f) => seq![f.fd as int], None => Seq::<int>::empty() })"),
    "update_dmabuf_scanout": """
        requires !gfailed(%(O)s)
        ensures final(self).acq@ <= old(self).acq@ + 1, // [C10]
            %(O)s.error is Some ==> r is Err && glog(%(N)s) == glog(%(O)s) && !gfailed(%(N)s),
            %(O)s.error is None ==> g_send_recv(%(O)s, %(N)s, gfr(10, 20, update.bytes(), %(E8)s, %(NF)s), r is Ok), // [C01,C06,C10]
""" % dict(O=O, N=N, E8=E8, NF=NF),
    "cursor_pos": send_only(4, "12", "cursor_pos.bytes()"),
    "cursor_pos_hide": send_only(5, "12", "cursor_pos.bytes()"),
    "cursor_update": send_only(6, "20 + data@.len()", "cursor_update.bytes()", "data@", pre=", data@.len() == 16384"),
}


def build():
    u = Unit("gpu")
    gb, gm = Source(GB), Source(GM)
    u.raw("use vstd::prelude::*;\nverus! {\n")
    name, ty, vals = parse_enum_value(gm.macro_block("enum_value", r'\benum\s+GpuBackendReq\b'))
    u.rw._count("R4", 1)
    u.raw(gen_req_enum(name, vals, is_req=False))
    u.env("gpu.rs")
    span = gb.impl_span(r'^impl BackendInternal$')
    u.raw("impl BackendInternal {")
    u.extracted_fn(gb, "check_state", within=span, sig_rw=SIG_RW[1:], body_rw=BODY_RW, contract="\n        ensures (r is Ok) == (self.error is None)")
    same = "final(self).error == old(self).error"
    u.extracted_fn(gb, "send_header", within=span, sig_rw=SIG_RW[1:], body_rw=BODY_RW, contract="""
        requires !gfailed(*old(self))
        ensures %s, old(self).error is Some ==> r is Err && glog(*final(self)) == glog(*old(self)) && !gfailed(*final(self)),
            old(self).error is None ==> g_send_only(*old(self), *final(self), gfr(request.code(), 0, %s, %s, opt_rawfds(fds)), r is Ok), // [C01]
            r is Ok ==> r->Ok_0 == ghdr(gfr(request.code(), 0, %s, %s, opt_rawfds(fds))),""" % (same, E8, E8, E8, E8))
    u.extracted_fn(gb, "send_message", within=span, sig_rw=SIG_RW[1:], body_rw=BODY_RW, contract="""
        requires !gfailed(*old(self))
        ensures %s, old(self).error is Some ==> r is Err && glog(*final(self)) == glog(*old(self)) && !gfailed(*final(self)),
            old(self).error is None ==> g_send_only(*old(self), *final(self), gfr(request.code(), T::spec_size(), body.bytes(), %s, opt_rawfds(fds)), r is Ok), // [C01]
            r is Ok ==> r->Ok_0 == ghdr(gfr(request.code(), T::spec_size(), body.bytes(), %s, opt_rawfds(fds))),""" % (same, E8, E8))
    u.extracted_fn(gb, "send_message_with_payload", within=span, sig_rw=SIG_RW[1:], body_rw=BODY_RW, contract="""
        requires !gfailed(*old(self)), data@.len() <= 0xffff_0000
        ensures %s, old(self).error is Some ==> r is Err && glog(*final(self)) == glog(*old(self)) && !gfailed(*final(self)),
            old(self).error is None ==> g_send_only(*old(self), *final(self), gfr(request.code(), T::spec_size() + data@.len(), body.bytes(), data@, opt_rawfds(fds)), r is Ok), // [C01]
            r is Ok ==> r->Ok_0 == ghdr(gfr(request.code(), T::spec_size() + data@.len(), body.bytes(), data@, opt_rawfds(fds))),""" % same)
    u.extracted_fn(gb, "recv_reply", within=span, sig_rw=SIG_RW[1:], body_rw=BODY_RW, contract="""
        requires !gfailed(*old(self)), old(self).error is None
        ensures %s,
            gfailed(*final(self)) ==> r is Err && glog(*final(self)) == glog(*old(self)),
            !gfailed(*final(self)) ==> glog(*final(self)) == glog(*old(self)).push(Ev::Rx(glast(*final(self)))) && glog(*final(self)).last() is Rx
                && (r is Ok) == (gpu_is_reply_for(rx_hdr(glast(*final(self))), *hdr) && glast(*final(self)).fds.len() == 0 && V::decode(glast(*final(self)).body).valid_spec()), // [C06] only the matching reply, no descriptors
            r is Ok ==> r->Ok_0 == V::decode(glast(*final(self)).body), // [C06]""" % same)
    u.raw("}")
    span = gb.impl_span(r'^impl GpuBackend$')
    u.raw("impl GpuBackend {")
    # initial state (third session): the proxy talks on the endpoint it was given and has no recorded failure
    u.extracted_fn(gb, "new", within=span,
                   sig_rw=[("R3", r'Endpoint<VhostUserGpuMsgHeader<GpuBackendReq>>', 'Endpoint'), ("R3", r'-> Self\b', '-> GpuBackend')],
                   body_rw=[("R8", r'\bSelf \{\s*node:\s*Arc::new\(Mutex::new\((BackendInternal \{[^{}]*\})\)\),?', r'GpuBackend { inner: \1, acq: Ghost(0nat),')],
                   contract="""
        ensures r.inner.sock == ep, r.inner.error is None, // [C10,C06] a new proxy has no recorded failure and uses the caller's endpoint""")
    for name, c in METHODS.items():
        u.extracted_fn(gb, name, within=span, sig_rw=SIG_RW, body_rw=BODY_RW, contract=c)
    u.extracted_fn(gb, "set_failed", within=span, sig_rw=SIG_RW, body_rw=BODY_RW, contract="""
        ensures final(self).acq@ == old(self).acq@ + 1, final(self).inner.error == Some(error), final(self).inner.sock == old(self).inner.sock, // [C10,C06] the failure is recorded (check_state then refuses every request); no socket traffic""")
    u.raw("}")
    u.raw("fn main() {}\n} // verus!")
    return u
