#!/bin/bash
# dev helper: generate unit $1 and run verus, filtered output
cd /verif && python3 -c "
import importlib, sys
m=importlib.import_module('units_$1')
u=m.build()
open('scratch/$1.rs','w').write(u.text())
print(len(u.text().splitlines()), 'lines;', len(u.functions),'extracted fns; rules', u.rw.fired)
" && cd scratch && verus $1.rs --multiple-errors 5 2>&1 | grep -v "^\[rust_verify\|^warning: variant\|camel\|^  *|$\|^  *= note\|^$" | head -${2:-80}
