// ===== contract environment: VhostUserDaemon (vhost-user-backend/src/lib.rs) — the SEQUENTIAL fragment of C16 only =====
pub enum IoError { Os(i32), Other }
pub enum VhostUserError { Disconnected, PartialMessage, SocketBroken(IoError), InvalidMessage, Other }
pub struct AnyBox;
pub enum Error {
    NewVhostUserHandler, CreateBackendListener(VhostUserError), CreateBackendReqHandler(VhostUserError), CreateVhostUserListener(VhostUserError),
    StartDaemon(IoError), WaitDaemon(AnyBox), HandleRequest(VhostUserError),
}
pub type Result<T> = core::result::Result<T, Error>;

// the daemon thread: `result` is what its closure returned; joining it is the only synchronisation point wait() has
pub struct JoinHandle { pub result: Ghost<Result<()>>, pub panicked: Ghost<bool> }
// R18 target of `handle.join()`: joining advances the daemon's ghost epoch (reads of the shutdown flag before / after the
// join are different observations of a flag another thread may set at any time)
#[verifier::external_body]
pub fn join_handle(handle: JoinHandle, epoch: &mut Ghost<nat>) -> (r: core::result::Result<Result<()>, AnyBox>)
    ensures final(epoch)@ == old(epoch)@ + 1, handle.panicked@ ==> r is Err, !handle.panicked@ ==> r == Ok::<Result<()>, AnyBox>(handle.result@)
{ unimplemented!() }

pub struct ConnectionState { pub id: Ghost<int> }
pub struct HandlerGuardStub { pub exit_events: Ghost<nat> }
impl HandlerGuardStub {
    // proved-by: verus unit exitev (VhostUserHandler::send_exit_event writes every worker's exit eventfd exactly once, in worker order; the worker registered that event with id num_queues in VringEpollHandler::new); the counter records the call
    #[verifier::external_body]
    pub fn send_exit_event(&mut self) ensures final(self).exit_events@ == old(self).exit_events@ + 1 { unimplemented!() }
}
pub struct PathStub;
pub struct Listener;
impl Listener {
    // assumed: A-OS Listener::new binds the socket (may fail)
    #[verifier::external_body]
    pub fn new(socket: PathStub, unlink: bool) -> (r: core::result::Result<Listener, VhostUserError>) { unimplemented!() }
}

pub struct VhostUserDaemon {
    pub handler: HandlerGuardStub,
    pub main_thread: Option<JoinHandle>,
    pub conn_state: Option<ConnectionState>,
    pub epoch: Ghost<nat>,            // number of joins performed by wait()
    pub flag_before_join: Ghost<bool>, // value a read of shutdown_requested yields before the daemon thread has been joined
    pub flag_after_join: Ghost<bool>,  // ... and after it has been joined (a shutdown requested while wait() was blocked is visible here)
    pub started: Ghost<nat>,
    pub waited: Ghost<nat>,
    pub wait_result: Ghost<Result<()>>,
}
impl VhostUserDaemon {
    // R6 target of the `shutdown_requested` closure body:
    //   self.conn_state.as_ref().is_some_and(|s| s.shutdown_requested.load(Ordering::Acquire))
    #[verifier::external_body]
    pub fn shutdown_requested_now(&self) -> (r: bool)
        ensures r == (self.conn_state is Some && (if self.epoch@ >= 1 { self.flag_after_join@ } else { self.flag_before_join@ }))
    { unimplemented!() }
    // start(): verified elsewhere only through its parts; here an arbitrary outcome
    // assumed: ENV start() (accept + thread spawn: outside both verifiers): arbitrary outcome, handler untouched
    #[verifier::external_body]
    pub fn start(&mut self, listener: &mut Listener) -> (r: Result<()>)
        ensures final(self).handler == old(self).handler, final(self).started@ == old(self).started@ + 1, final(self).waited@ == old(self).waited@
    { unimplemented!() }
    // R8 target: self.handler.lock().unwrap() (assumed: A-LOCK)
    #[verifier::external_body]
    pub fn handler_guard(&mut self) -> (g: &mut HandlerGuardStub)
        ensures *g == old(self).handler, final(self).handler == *final(g), final(self).started@ == old(self).started@, final(self).waited@ == old(self).waited@,
            final(self).wait_result@ == old(self).wait_result@
    { unimplemented!() }
}
pub open spec fn wait_outcome(thread_result: Result<()>, conn: bool, flag_after: bool) -> Result<()> {
    match thread_result {
        Ok(()) => Ok(()),
        Err(Error::HandleRequest(VhostUserError::SocketBroken(_))) => Ok(()),
        Err(Error::HandleRequest(e)) => if conn && flag_after { Ok(()) } else { Err(Error::HandleRequest(e)) },
        Err(e) => Err(e),
    }
}

// ---- ShutdownHandle::shutdown (third session): the two effects on the shared connection state, in order
#[derive(PartialEq, Eq, Clone, Copy)]
pub enum ShutdownHow { Read, Write, Both }
pub enum ShutEv { Flag(bool), Sock(ShutdownHow) }
pub struct ConnStateLog { pub evs: Ghost<Seq<ShutEv>> }
impl ConnStateLog {
    // assumed: A-ATOMIC AtomicBool::store publishes the value (R8: `&self` -> `&mut self` for the ghost log; the memory ordering is not pinned:
    // wait() reads the flag after joining the daemon thread, and the join synchronises)
    #[verifier::external_body]
    pub fn store_flag(&mut self, v: bool) ensures final(self).evs@ == old(self).evs@.push(ShutEv::Flag(v)) { unimplemented!() }
    // assumed: A-OS UnixStream::shutdown(how) shuts the given directions of the connection down (may fail, e.g. already closed)
    #[verifier::external_body]
    pub fn conn_shutdown(&mut self, how: ShutdownHow) -> (r: core::result::Result<(), AnyBox>) ensures final(self).evs@ == old(self).evs@.push(ShutEv::Sock(how)) { unimplemented!() }
}
pub struct ShutdownHandle { pub state: ConnStateLog }
