// ===== contract environment: backend->frontend proxy (backend_req.rs) and its server (frontend_req_handler.rs) =====
pub type HandlerResult<T> = core::result::Result<T, IoError>;

// From<vhost_user::Error> for io::Error (backend_req.rs: io::Error::other(e)) — the result carries no errno
impl vstd::std_specs::convert::FromSpecImpl<Error> for IoError {
    open spec fn obeys_from_spec() -> bool { true }
    open spec fn from_spec(e: Error) -> Self { IoError::Other }
}
impl core::convert::From<Error> for IoError {
    fn from(e: Error) -> (r: IoError) { IoError::Other }
}
// R6 target of io::Error::other("...")
pub fn io_error_other() -> (r: IoError) ensures r == IoError::Other { IoError::Other }

pub struct EventFd { pub fd: RawFd }
#[verifier::external_body]
pub fn fds1<'a>(f: &'a &'a EventFd) -> (r: Option<&'a [RawFd]>) ensures opt_rawfds(r) == seq![f.fd as int] { unimplemented!() }

pub struct RxFrame { pub request: u32, pub flags: u32, pub size: u32, pub body: Seq<u8>, pub payload: Seq<u8>, pub fds: Seq<int> }
pub struct Frame { pub request: u32, pub flags: u32, pub size: u32, pub body: Seq<u8>, pub payload: Seq<u8>, pub fds: Seq<int> }
pub enum Ev { Tx(Frame), Rx(RxFrame) }
pub struct Endpoint<R: Req> { pub log: Ghost<Seq<Ev>>, pub io_failed: Ghost<bool>, pub rx_hdrs: Ghost<nat>, pub rx_body: Ghost<Seq<nat>>, pub on: Ghost<(int, int)>, pub _h: core::marker::PhantomData<R> }

pub open spec fn rx_hdr<R: Req>(x: RxFrame) -> VhostUserMsgHeader<R> {
    VhostUserMsgHeader { request: x.request, flags: x.flags, size: x.size, _r: core::marker::PhantomData }
}
pub open spec fn frame_of<R: Req, T: ByteValued>(hdr: VhostUserMsgHeader<R>, body: T, fds: Seq<int>) -> Frame {
    Frame { request: hdr.request, flags: hdr.flags, size: hdr.size, body: body.bytes(), payload: Seq::<u8>::empty(), fds: fds }
}

impl<R: Req> Endpoint<R> {
    // proved-by: c08_send_message_frame
    #[verifier::external_body]
    pub fn send_message<T: ByteValued>(&mut self, hdr: &VhostUserMsgHeader<R>, body: &T, fds: Option<&[RawFd]>) -> (r: Result<()>)
        ensures
            final(self).rx_hdrs@ == old(self).rx_hdrs@, final(self).rx_body@ == old(self).rx_body@,
            r is Ok ==> final(self).log@ == old(self).log@.push(Ev::Tx(frame_of(*hdr, *body, opt_rawfds(fds)))) && final(self).io_failed@ == old(self).io_failed@,
            r is Err ==> final(self).log@ == old(self).log@ && final(self).io_failed@,
    { unimplemented!() }
    // proved-by: c08_recv_body_classification
    #[verifier::external_body]
    pub fn recv_body<T: ByteValued>(&mut self) -> (r: Result<(VhostUserMsgHeader<R>, T, Option<Vec<File>>)>)
        ensures
            final(self).rx_hdrs@ == old(self).rx_hdrs@, final(self).rx_body@ == old(self).rx_body@,
            r is Err ==> final(self).log@ == old(self).log@ && final(self).io_failed@,
            r is Ok ==> final(self).io_failed@ == old(self).io_failed@
                && final(self).log@ == old(self).log@.push(Ev::Rx(final(self).log@.last()->Rx_0)) && final(self).log@.last() is Rx
                && r->Ok_0.0 == rx_hdr::<R>(final(self).log@.last()->Rx_0) && hdr_valid_spec(r->Ok_0.0)
                && r->Ok_0.1 == T::decode(final(self).log@.last()->Rx_0.body)
                && opt_file_ids(r->Ok_0.2) == final(self).log@.last()->Rx_0.fds && (r->Ok_0.2 is Some ==> r->Ok_0.2->Some_0@.len() >= 1),
    { unimplemented!() }
    // proved-by: c08_recv_header_classification
    #[verifier::external_body]
    pub fn recv_header(&mut self) -> (r: Result<(VhostUserMsgHeader<R>, Option<Vec<File>>)>)
        ensures
            final(self).log@ == old(self).log@, final(self).io_failed@ == old(self).io_failed@, final(self).rx_body@ == old(self).rx_body@,
            r is Ok ==> final(self).rx_hdrs@ == old(self).rx_hdrs@ + 1 && hdr_valid_spec(r->Ok_0.0)
                && (r->Ok_0.1 is Some ==> 1 <= r->Ok_0.1->Some_0@.len() <= 32),
    { unimplemented!() }
    // proved-by: c08_recv_data_segmentation_bounded
    #[verifier::external_body]
    pub fn recv_data(&mut self, len: usize) -> (r: Result<(usize, Vec<u8>)>)
        ensures
            final(self).log@ == old(self).log@, final(self).io_failed@ == old(self).io_failed@, final(self).rx_hdrs@ == old(self).rx_hdrs@,
            r is Ok ==> final(self).rx_body@ == old(self).rx_body@.push(len as nat) && r->Ok_0.0 <= len && r->Ok_0.1@.len() == len,
    { unimplemented!() }
}

// R5 target (sizes proved-by: c01_layout_table)
#[verifier::external_body]
pub fn size_of_<T: ByteValued>() -> (r: usize) ensures r as nat == T::spec_size(), r <= 4096 { unimplemented!() }
// R7 target: REQUIRES is the in-bounds condition of the unsafe read; the value is the spec decoding of the bytes (proved-by: c01_body_bytes_* )
#[verifier::external_body]
pub fn read_unaligned_<T: ByteValued>(buf: &[u8]) -> (r: T)
    requires buf@.len() >= T::spec_size()
    ensures r == T::decode(buf@.subrange(0, T::spec_size() as int))
{ unimplemented!() }

// ---------------- proxy (backend side)
pub struct BackendInternal {
    pub sock: Endpoint<BackendReq>,
    pub reply_ack_negotiated: bool,
    pub shared_object_negotiated: bool,
    pub shmem_negotiated: bool,
    pub error: Option<i32>,
}
// `Backend { inner: Arc<Mutex<BackendInternal>> }` (R8; assumed: A-LOCK)
pub struct Backend { pub inner_: BackendInternal, pub acq: Ghost<nat> }
impl Backend {
    // R8 target: self.node.lock().unwrap() (assumed: A-LOCK)
    #[verifier::external_body]
    pub fn lock_inner(&mut self) -> (g: &mut BackendInternal)
        ensures *g == old(self).inner_, final(self).inner_ == *final(g), final(self).acq@ == old(self).acq@ + 1
    { unimplemented!() }
}

pub open spec fn plog(n: BackendInternal) -> Seq<Ev> { n.sock.log@ }
pub open spec fn pfailed(n: BackendInternal) -> bool { n.sock.io_failed@ }
pub open spec fn pstate_same(o: BackendInternal, n: BackendInternal) -> bool {
    n.reply_ack_negotiated == o.reply_ack_negotiated && n.shared_object_negotiated == o.shared_object_negotiated
        && n.shmem_negotiated == o.shmem_negotiated && n.error == o.error
}
pub open spec fn plast_rx(n: BackendInternal) -> RxFrame { plog(n).last()->Rx_0 }
// request frame of the proxy: version 1, NEED_REPLY iff reply-ack is negotiated
pub open spec fn pfr<T: ByteValued>(o: BackendInternal, code: u32, body: T, fds: Seq<int>) -> Frame {
    Frame { request: code, flags: if o.reply_ack_negotiated { 9 } else { 1 }, size: T::spec_size() as u32, body: body.bytes(), payload: Seq::<u8>::empty(), fds: fds }
}
pub open spec fn phdr(f: Frame) -> VhostUserMsgHeader<BackendReq> {
    VhostUserMsgHeader { request: f.request, flags: f.flags, size: f.size, _r: core::marker::PhantomData }
}
pub open spec fn pack_good(x: RxFrame, f: Frame) -> bool {
    is_reply_for_spec(rx_hdr::<BackendReq>(x), phdr(f)) && x.fds.len() == 0 && VhostUserU64::decode(x.body).value == 0
}
// outcome of one proxy request (C18): one frame out; with reply-ack exactly one frame in, success iff it is the
// matching acknowledgement with value 0; without reply-ack nothing is awaited and the call succeeds with 0
pub open spec fn proxy_outcome(o: BackendInternal, n: BackendInternal, f: Frame, ok: bool) -> bool {
    if pfailed(n) { !ok && (plog(n) == plog(o) || plog(n) == plog(o).push(Ev::Tx(f))) }
    else if o.reply_ack_negotiated { plog(n) == plog(o).push(Ev::Tx(f)).push(Ev::Rx(plast_rx(n))) && ok == pack_good(plast_rx(n), f) }
    else { plog(n) == plog(o).push(Ev::Tx(f)) && ok }
}

// ---------------- server (frontend side): the application's handler
pub enum Call2 { ConfigChange, Add(VhostUserSharedMsg), Remove(VhostUserSharedMsg), Lookup(VhostUserSharedMsg, int), Map(VhostUserMMap, int), Unmap(VhostUserMMap) }
pub struct HandlerStub2 { pub trace: Ghost<Seq<Call2>>, pub rets: Ghost<Seq<HandlerResult<u64>>> }
impl HandlerStub2 {
    // assumed: ENV-HANDLER the device handler is an ARBITRARY implementation of its trait (any result / return value); the stub only records the call in the ghost trace
    #[verifier::external_body] pub fn handle_config_change(&mut self) -> (r: HandlerResult<u64>)
        ensures final(self).trace@ == old(self).trace@.push(Call2::ConfigChange), final(self).rets@ == old(self).rets@.push(r) { unimplemented!() }
    // assumed: ENV-HANDLER the device handler is an ARBITRARY implementation of its trait (any result / return value); the stub only records the call in the ghost trace
    #[verifier::external_body] pub fn shared_object_add(&mut self, uuid: &VhostUserSharedMsg) -> (r: HandlerResult<u64>)
        ensures final(self).trace@ == old(self).trace@.push(Call2::Add(*uuid)), final(self).rets@ == old(self).rets@.push(r) { unimplemented!() }
    // assumed: ENV-HANDLER the device handler is an ARBITRARY implementation of its trait (any result / return value); the stub only records the call in the ghost trace
    #[verifier::external_body] pub fn shared_object_remove(&mut self, uuid: &VhostUserSharedMsg) -> (r: HandlerResult<u64>)
        ensures final(self).trace@ == old(self).trace@.push(Call2::Remove(*uuid)), final(self).rets@ == old(self).rets@.push(r) { unimplemented!() }
    // assumed: ENV-HANDLER the device handler is an ARBITRARY implementation of its trait (any result / return value); the stub only records the call in the ghost trace
    #[verifier::external_body] pub fn shared_object_lookup(&mut self, uuid: &VhostUserSharedMsg, fd: &File) -> (r: HandlerResult<u64>)
        ensures final(self).trace@ == old(self).trace@.push(Call2::Lookup(*uuid, fd.id@)), final(self).rets@ == old(self).rets@.push(r) { unimplemented!() }
    // assumed: ENV-HANDLER the device handler is an ARBITRARY implementation of its trait (any result / return value); the stub only records the call in the ghost trace
    #[verifier::external_body] pub fn shmem_map(&mut self, req: &VhostUserMMap, fd: &File) -> (r: HandlerResult<u64>)
        ensures final(self).trace@ == old(self).trace@.push(Call2::Map(*req, fd.id@)), final(self).rets@ == old(self).rets@.push(r) { unimplemented!() }
    // assumed: ENV-HANDLER the device handler is an ARBITRARY implementation of its trait (any result / return value); the stub only records the call in the ghost trace
    #[verifier::external_body] pub fn shmem_unmap(&mut self, req: &VhostUserMMap) -> (r: HandlerResult<u64>)
        ensures final(self).trace@ == old(self).trace@.push(Call2::Unmap(*req)), final(self).rets@ == old(self).rets@.push(r) { unimplemented!() }
}
// the server's private channel (FrontendReqHandler::new): the two halves of one UnixStream::pair() share `pair`; `side` tells them apart
pub struct UnixStream { pub pair: Ghost<int>, pub side: Ghost<int>, pub fd: RawFd }
impl UnixStream {
    // assumed: A-OS UnixStream::pair() creates two connected sockets (may fail)
    #[verifier::external_body]
    pub fn pair() -> (r: core::result::Result<(UnixStream, UnixStream), IoError>)
        ensures r is Ok ==> r->Ok_0.0.pair@ == r->Ok_0.1.pair@ && r->Ok_0.0.side@ != r->Ok_0.1.side@
    { unimplemented!() }
    // assumed: A-OS (as_raw_fd lends the descriptor number, ownership unchanged)
    #[verifier::external_body]
    pub fn as_raw_fd(&self) -> (r: RawFd) ensures r == self.fd { unimplemented!() }
}
impl<R: Req> Endpoint<R> {
    // assumed: ENV Endpoint::from_stream (connection.rs) wraps the socket: nothing sent or received yet, no failure
    #[verifier::external_body]
    pub fn from_stream(sock: UnixStream) -> (r: Endpoint<R>)
        ensures r.log@ =~= Seq::<Ev>::empty(), !r.io_failed@, r.rx_hdrs@ == 0, r.rx_body@ =~= Seq::<nat>::empty(), r.on@ == (sock.pair@, sock.side@)
    { unimplemented!() }
}
pub struct FrontendReqHandler {
    pub sub_sock: Endpoint<BackendReq>,
    pub tx_sock: UnixStream,
    pub reply_ack_negotiated: bool,
    pub backend: HandlerStub2,
    pub error: Option<i32>,
}
pub open spec fn slog(n: FrontendReqHandler) -> Seq<Ev> { n.sub_sock.log@ }
pub open spec fn s_same(o: FrontendReqHandler, n: FrontendReqHandler) -> bool {
    n.reply_ack_negotiated == o.reply_ack_negotiated && n.error == o.error
        && n.sub_sock.rx_hdrs@ == o.sub_sock.rx_hdrs@ && n.sub_sock.rx_body@ == o.sub_sock.rx_body@
}
pub open spec fn s_nothing(o: FrontendReqHandler, n: FrontendReqHandler) -> bool { slog(n) == slog(o) && n.backend == o.backend }
// acknowledgement value (C18): handler Ok(n) -> n; OS error e -> -e; any other error -> -EINVAL
pub open spec fn ack_value(res: Result<u64>) -> u64 {
    match res {
        Ok(n) => n,
        Err(Error::ReqHandlerError(IoError::Os(e))) => (-e) as u64,
        Err(_) => (-22i32) as u64,
    }
}
pub open spec fn s_ack_frame(req: VhostUserMsgHeader<BackendReq>, v: u64) -> Frame {
    Frame { request: req.request, flags: 5, size: 8, body: VhostUserU64 { value: v }.bytes(), payload: Seq::<u8>::empty(), fds: Seq::<int>::empty() }
}
pub open spec fn s_ack_rule(o: FrontendReqHandler, n: FrontendReqHandler, req: VhostUserMsgHeader<BackendReq>, res: Result<u64>) -> bool {
    n.sub_sock.io_failed@ || (if o.reply_ack_negotiated && req.flags & 8 != 0 { slog(n) == slog(o).push(Ev::Tx(s_ack_frame(req, ack_value(res)))) } else { slog(n) == slog(o) })
}
pub open spec fn wrap_res(r: HandlerResult<u64>) -> Result<u64> { match r { Ok(v) => Ok(v), Err(e) => Err(Error::ReqHandlerError(e)) } }
pub open spec fn s_arm_pre(s: FrontendReqHandler, hdr: VhostUserMsgHeader<BackendReq>, size: usize, buf: Seq<u8>, files: Option<Vec<File>>) -> bool {
    s.error is None && !s.sub_sock.io_failed@ && hdr_valid_spec(hdr) && size == hdr.size && buf.len() == size
        && (if hdr.request == 8 || hdr.request == 9 { files is Some && files->Some_0@.len() == 1 } else { files is None })
}
pub open spec fn s_req_ok(h: VhostUserMsgHeader<BackendReq>) -> bool { (h.flags & 4 != 0) == false && (h.flags & 3) == 1 }
