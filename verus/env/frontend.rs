// ===== contract environment: frontend endpoint (hand-written; NOT extracted) =====
// Names follow frontend.rs: `Error`/`Result` are the crate-level types, `VhostUserError`/`VhostUserResult`
// the vhost-user ones (common.rs's Error).

pub type VhostUserError = super::Error;
pub type VhostUserResult<T> = core::result::Result<T, super::Error>;

pub enum Error { VhostUserProtocol(VhostUserError), Other }
pub type Result<T> = core::result::Result<T, Error>;

// From<vhost_user::Error> for crate::Error (lib.rs) — assumed: wraps the error unchanged
impl vstd::std_specs::convert::FromSpecImpl<VhostUserError> for Error {
    open spec fn obeys_from_spec() -> bool { true }
    open spec fn from_spec(e: VhostUserError) -> Self { Error::VhostUserProtocol(e) }
}
impl core::convert::From<VhostUserError> for Error {
    fn from(e: VhostUserError) -> (r: Error) { Error::VhostUserProtocol(e) }
}

pub type VhostUserMemoryPayload = Vec<VhostUserMemoryRegion>;
pub type VhostUserConfigPayload = Vec<u8>;

// ---- types of crate::backend used by the API (field names as in vhost/src/backend.rs)
#[derive(Clone, Copy)]
pub struct VhostUserMemoryRegionInfo { pub guest_phys_addr: u64, pub memory_size: u64, pub userspace_addr: u64,
    pub mmap_offset: u64, pub mmap_handle: RawFd }
#[derive(Clone, Copy)]
pub struct VhostUserDirtyLogRegion { pub mmap_size: u64, pub mmap_offset: u64, pub mmap_handle: RawFd }

pub struct EventFd { pub fd: RawFd }
impl EventFd {
    // assumed: A-OS
    #[verifier::external_body] pub fn as_raw_fd(&self) -> (r: RawFd) ensures r == self.fd { unimplemented!() }
}
pub struct OwnedFd { pub fd: RawFd }
impl OwnedFd {
    #[verifier::external_body] pub fn as_raw_fd(&self) -> (r: RawFd) ensures r == self.fd { unimplemented!() }
}

// ---- events on the shared socket, in program order
// `demand`: number of bytes the receive call that consumed this frame waits for while the connection is alive (the socket
// primitive recv_into_iovec_all returns short only at end-of-stream: kani c08_c09_recv_into_iovec_all_bounded_thorough)
pub struct RxFrame { pub request: u32, pub flags: u32, pub size: u32, pub body: Seq<u8>, pub payload: Seq<u8>, pub fds: Seq<int>, pub demand: nat }
pub enum Ev { Tx(Frame), Rx(RxFrame) }

pub struct Frame { pub request: u32, pub flags: u32, pub size: u32, pub body: Seq<u8>, pub payload: Seq<u8>, pub fds: Seq<int> }

pub struct Endpoint<R: Req> {
    pub log: Ghost<Seq<Ev>>,
    pub io_failed: Ghost<bool>,
    pub _h: core::marker::PhantomData<R>,
}

pub open spec fn rx_hdr<R: Req>(x: RxFrame) -> VhostUserMsgHeader<R> {
    VhostUserMsgHeader { request: x.request, flags: x.flags, size: x.size, _r: core::marker::PhantomData }
}

impl<R: Req> Endpoint<R> {
    // proved-by: c08_send_header_frame / c08_send_message_frame / c08_send_message_with_payload_frame (kani, connection.rs)
    #[verifier::external_body]
    pub fn send_header(&mut self, hdr: &VhostUserMsgHeader<R>, fds: Option<&[RawFd]>) -> (r: VhostUserResult<()>)
        ensures
            r is Ok ==> final(self).log@ == old(self).log@.push(Ev::Tx(Frame { request: hdr.request, flags: hdr.flags, size: hdr.size,
                body: Seq::<u8>::empty(), payload: Seq::<u8>::empty(), fds: opt_rawfds(fds) })) && final(self).io_failed@ == old(self).io_failed@,
            r is Err ==> final(self).log@ == old(self).log@ && final(self).io_failed@,
    { unimplemented!() }
    // proved-by: c08_send_message_frame (kani: exactly hdr|body and the caller's descriptors handed to send_iovec_all once) + unit chunk (send_iovec_all) + assumed: A-OS for sendmsg
    #[verifier::external_body]
    pub fn send_message<T: ByteValued>(&mut self, hdr: &VhostUserMsgHeader<R>, body: &T, fds: Option<&[RawFd]>) -> (r: VhostUserResult<()>)
        ensures
            r is Ok ==> final(self).log@ == old(self).log@.push(Ev::Tx(Frame { request: hdr.request, flags: hdr.flags, size: hdr.size,
                body: body.bytes(), payload: Seq::<u8>::empty(), fds: opt_rawfds(fds) })) && final(self).io_failed@ == old(self).io_failed@,
            r is Err ==> final(self).log@ == old(self).log@ && final(self).io_failed@,
    { unimplemented!() }
    // proved-by: c08_send_message_with_payload_frame / _limits (kani) + unit chunk + assumed: A-OS
    #[verifier::external_body]
    pub fn send_message_with_payload<T: ByteValued>(&mut self, hdr: &VhostUserMsgHeader<R>, body: &T, payload: &[u8], fds: Option<&[RawFd]>) -> (r: VhostUserResult<()>)
        ensures
            r is Ok ==> final(self).log@ == old(self).log@.push(Ev::Tx(Frame { request: hdr.request, flags: hdr.flags, size: hdr.size,
                body: body.bytes(), payload: payload@, fds: opt_rawfds(fds) })) && final(self).io_failed@ == old(self).io_failed@,
            r is Err ==> final(self).log@ == old(self).log@ && final(self).io_failed@,
    { unimplemented!() }

    // proved-by: c08_recv_body_* : Ok only for a complete header + body of exactly size_of::<T>() bytes; the values
    // returned are those of the frame consumed (an ARBITRARY frame: the peer is not trusted)
    #[verifier::external_body]
    pub fn recv_body<T: ByteValued>(&mut self) -> (r: VhostUserResult<(VhostUserMsgHeader<R>, T, Option<Vec<File>>)>)
        ensures
            r is Err ==> final(self).log@ == old(self).log@ && final(self).io_failed@,
            r is Ok ==> final(self).io_failed@ == old(self).io_failed@
                && final(self).log@ == old(self).log@.push(Ev::Rx(final(self).log@.last()->Rx_0)) && final(self).log@.last() is Rx
                && r->Ok_0.0 == rx_hdr::<R>(final(self).log@.last()->Rx_0) && hdr_valid_spec(r->Ok_0.0)
                && final(self).log@.last()->Rx_0.body.len() == T::spec_size() && r->Ok_0.1 == T::decode(final(self).log@.last()->Rx_0.body)
                && final(self).log@.last()->Rx_0.payload.len() == 0 && final(self).log@.last()->Rx_0.demand == 12 + T::spec_size()
                && opt_file_ids(r->Ok_0.2) == final(self).log@.last()->Rx_0.fds && (r->Ok_0.2 is Some ==> r->Ok_0.2->Some_0@.len() >= 1),
    { unimplemented!() }

    // proved-by: c08_recv_payload_into_buf_* : fills `buf` with at most buf.len() payload bytes, returns how many
    #[verifier::external_body]
    pub fn recv_payload_into_buf<T: ByteValued>(&mut self, buf: &mut Vec<u8>) -> (r: VhostUserResult<(VhostUserMsgHeader<R>, T, usize, Option<Vec<File>>)>)
        ensures
            final(buf)@.len() == old(buf)@.len(),
            r is Err ==> final(self).log@ == old(self).log@ && final(self).io_failed@,
            r is Ok ==> final(self).io_failed@ == old(self).io_failed@
                && final(self).log@ == old(self).log@.push(Ev::Rx(final(self).log@.last()->Rx_0)) && final(self).log@.last() is Rx
                && r->Ok_0.0 == rx_hdr::<R>(final(self).log@.last()->Rx_0) && hdr_valid_spec(r->Ok_0.0)
                && final(self).log@.last()->Rx_0.body.len() == T::spec_size() && r->Ok_0.1 == T::decode(final(self).log@.last()->Rx_0.body)
                && r->Ok_0.2 == final(self).log@.last()->Rx_0.payload.len() && r->Ok_0.2 <= old(buf)@.len()
                && final(self).log@.last()->Rx_0.demand == 12 + T::spec_size() + old(buf)@.len()
                && final(buf)@.subrange(0, r->Ok_0.2 as int) == final(self).log@.last()->Rx_0.payload
                && opt_file_ids(r->Ok_0.3) == final(self).log@.last()->Rx_0.fds && (r->Ok_0.3 is Some ==> r->Ok_0.3->Some_0@.len() >= 1),
    { unimplemented!() }
}

// R7 target: `unsafe { ctx.regions.align_to::<u8>() }` middle part = the byte image of the region array
pub open spec fn regions_bytes(v: Seq<VhostUserMemoryRegion>) -> Seq<u8>
    decreases v.len()
{
    if v.len() == 0 { Seq::<u8>::empty() } else { regions_bytes(v.drop_last()) + v.last().bytes() }
}
// R7 target: align_to::<u8>() of the region array = concatenation of the regions' byte images (proved-by: c01_body_bytes_* layout harnesses)
#[verifier::external_body]
pub fn regions_as_bytes(v: &Vec<VhostUserMemoryRegion>) -> (r: &[u8])
    ensures r@ == regions_bytes(v@), r@.len() == v@.len() * 32
{ unimplemented!() }

pub struct FrontendInternal {
    pub main_sock: Endpoint<FrontendReq>,
    pub virtio_features: u64,
    pub acked_virtio_features: u64,
    pub protocol_features: u64,
    pub acked_protocol_features: u64,
    pub protocol_features_ready: bool,
    pub max_queue_num: u64,
    pub error: Option<i32>,
    pub hdr_flags: VhostUserHeaderFlag,
}

// `Frontend { node: Arc<Mutex<FrontendInternal>> }`: the guard is the only way to the endpoint (R8).
// assumed: A-LOCK (std::sync::Mutex gives exclusive access while the guard lives; no poisoning)
pub struct Frontend { pub inner: FrontendInternal, pub acq: Ghost<nat> }
impl Frontend {
    #[verifier::external_body]
    pub fn node(&mut self) -> (g: &mut FrontendInternal)
        ensures *g == old(self).inner, final(self).inner == *final(g), final(self).acq@ == old(self).acq@ + 1
    { unimplemented!() }
}
