// ===== contract environment for the `chunk` unit: the partial-I/O loops of connection.rs (C08) =====
// assumed: A-OS (sendmsg accepts a PREFIX of the bytes offered, attaches the descriptors iff at least .. the call succeeds; on error nothing
//          is transferred; recvmsg stores a PREFIX-length run of the next stream bytes at the addresses of the iovecs in order)
pub type RawFd = i32;
// R10: an io::Error built with from_raw_os_error(e) is modelled by e
pub enum Error { SocketRetry(i32), SocketBroken(i32), SocketError(i32), SocketConnect(i32), PartialMessage, Disconnected,
    // the remaining variants of vhost_user::Error (payloads dropped: they are not produced by the functions of this unit)
    InvalidParam, InvalidOperation, InactiveFeature, InactiveOperation, InvalidMessage, OversizedMsg, IncorrectFds, BackendInternalError,
    FrontendInternalError, FeatureMismatch, ReqHandlerError, MemFdCreateError, FileTruncateError, MemFdSealError }
pub struct ErrnoError { pub e: i32 }
impl ErrnoError { pub fn errno(&self) -> (r: i32) ensures r == self.e { self.e } }
// the classification the property names (retry vs broken), written from its text: EAGAIN/EWOULDBLOCK 11, EINTR 4, ENOBUFS 105,
// ENOMEM 12 are temporary; ECONNRESET 104, EPIPE 32 mean the connection is gone; EACCES 13 is a connect error; the errno is kept
pub open spec fn classify(e: i32) -> Error {
    if e == 11 || e == 4 || e == 105 || e == 12 { Error::SocketRetry(e) } else if e == 104 || e == 32 { Error::SocketBroken(e) }
    else if e == 13 { Error::SocketConnect(e) } else { Error::SocketError(e) }
}
impl vstd::std_specs::convert::FromSpecImpl<ErrnoError> for Error {
    open spec fn obeys_from_spec() -> bool { true }
    open spec fn from_spec(e: ErrnoError) -> Self { classify(e.e) }
}
impl core::convert::From<ErrnoError> for Error {
    fn from(e: ErrnoError) -> (r: Error) { error_from_errno(e) }   // the extracted body of the real `From` impl (a trait impl method cannot carry ensures)
}
pub type ErrnoResult<T> = core::result::Result<T, ErrnoError>;
// R19/R20 targets in recv_data
// assumed: A-ALLOC vec![0u8; len] is a live allocation of len bytes (base + len does not wrap); base_of is the address of element 0
pub uninterp spec fn base_of(v: &Vec<u8>) -> usize;
#[verifier::external_body]
pub fn vec_zeroed(len: usize) -> (r: Vec<u8>) ensures r@.len() == len, base_of(&r) + len <= usize::MAX { vec![0u8; len] }
// `rbuf[from..].as_mut_ptr() as *mut c_void` (REQUIRES is the range check of the slice index: a failing one is a panic)
#[verifier::external_body]
pub fn tail_addr(v: &mut Vec<u8>, from: usize) -> (r: usize)
    requires from <= old(v)@.len()
    ensures r == base_of(old(v)) + from, final(v)@.len() == old(v)@.len(), base_of(final(v)) == base_of(old(v))
{ unimplemented!() }

// ---- recv_into_iovec (one recvmsg + wrapping of the received descriptors)
pub const MAX_ATTACHED_FD_ENTRIES: usize = 32;   // R4: re-checked against the working tree by the unit builder
// R19 target of `vec![0; MAX_ATTACHED_FD_ENTRIES]`
#[verifier::external_body]
pub fn vec_fds_zeroed(n: usize) -> (r: Vec<RawFd>) ensures r@.len() == n { vec![0; n] }
// R19 target of `fd_array.iter().take(n).map(|fd| File::from_raw_fd(*fd)).collect()`: each of the first n raw descriptors is wrapped
// in exactly one File (assumed: the adapter chain's meaning; cross-checked on the real code by c09_recv_into_iovec_wraps_each_fd_once_bounded)
#[verifier::external_body]
pub fn wrap_fds(fd_array: &Vec<RawFd>, n: usize) -> (r: Vec<File>)
    requires n <= fd_array@.len()
    ensures r@.len() == n, forall|i: int| 0 <= i < n ==> (#[trigger] r@[i]).id@ == fd_array@[i]
{ unimplemented!() }
impl Endpoint {
    // assumed: A-OS one recvmsg with a descriptor buffer: the kernel installs k <= capacity descriptors in this process and writes
    // their numbers to fds[..k]; on error nothing is received. `raw` is the ghost list of descriptors installed so far.
    #[verifier::external_body]
    pub fn sock_recv_with_fds_into(&mut self, iovs: &mut [iovec], fds: &mut Vec<RawFd>) -> (r: ErrnoResult<(usize, usize)>)
        ensures final(iovs)@ == old(iovs)@, final(fds)@.len() == old(fds)@.len(),
            match r {
                Ok((n, k)) => k <= old(fds)@.len() && final(self).raw@ == old(self).raw@ + final(fds)@.subrange(0, k as int).map(|i: int, f: RawFd| f as int)
                    && final(self).pos@ == old(self).pos@ + n,
                Err(_) => final(self).raw@ == old(self).raw@ && final(self).pos@ == old(self).pos@,
            }
    { unimplemented!() }
}
impl Endpoint {
    // assumed: A-OS  self.sock.recv_with_fds(iovs, fds) = one recvmsg (same contract as recv_into_iovec, no descriptor buffer)
    #[verifier::external_body]
    pub fn sock_recv_with_fds(&mut self, iovs: &mut [iovec; 1], fds: &mut [RawFd; 0]) -> (r: ErrnoResult<(usize, usize)>)
        requires iov_ok(old(iovs)@[0])
        ensures final(iovs)@ == old(iovs)@,
            match r {
                Ok((n, k)) => n <= old(iovs)@[0].iov_len && final(self).pos@ == old(self).pos@ + n
                    && final(self).stored@ =~= old(self).stored@ + deliver(addrs(old(iovs)@[0]).subrange(0, n as int), old(self).pos@)
                    && final(self).wire@ == old(self).wire@ && final(self).calls@ == old(self).calls@
                    && final(self).eof@ == (old(self).eof@ || (n == 0 && old(iovs)@[0].iov_len > 0)),
                Err(_) => final(self).pos@ == old(self).pos@ && final(self).stored@ == old(self).stored@ && final(self).wire@ == old(self).wire@ && final(self).calls@ == old(self).calls@ && final(self).eof@ == old(self).eof@,
            }
    { unimplemented!() }
}
pub type Result<T> = core::result::Result<T, Error>;
pub struct File { pub id: Ghost<int> }
#[allow(non_camel_case_types)]
pub struct iovec { pub iov_base: usize, pub iov_len: usize }

pub open spec fn sum_lens(s: Seq<usize>, n: int) -> int decreases n { if n <= 0 { 0 } else { sum_lens(s, n - 1) + s[n - 1] } }
pub open spec fn flat<A>(s: Seq<Seq<A>>) -> Seq<A> decreases s.len() { if s.len() == 0 { Seq::empty() } else { flat(s.drop_last()) + s.last() } }
pub open spec fn lens<A>(s: Seq<Seq<A>>) -> Seq<usize> { Seq::new(s.len(), |i: int| s[i].len() as usize) }

pub proof fn lemma_sum_mono(s: Seq<usize>, k: int, n: int)
    requires 0 <= k <= n
    ensures sum_lens(s, k) <= sum_lens(s, n), sum_lens(s, k) >= 0
    decreases n
{ if n > k { lemma_sum_mono(s, k, n - 1); } else if k > 0 { lemma_sum_mono(s, k - 1, k - 1); } }

pub proof fn lemma_flat_append<A>(a: Seq<Seq<A>>, b: Seq<Seq<A>>)
    ensures flat(a + b) =~= flat(a) + flat(b)
    decreases b.len()
{
    if b.len() == 0 { assert(a + b =~= a); }
    else {
        assert((a + b).drop_last() =~= a + b.drop_last());
        assert((a + b).last() == b.last());
        lemma_flat_append(a, b.drop_last());
    }
}
pub proof fn lemma_flat_len<A>(v: Seq<Seq<A>>, k: int)
    requires 0 <= k <= v.len(), forall|i: int| 0 <= i < v.len() ==> (#[trigger] v[i]).len() <= usize::MAX
    ensures flat(v.subrange(0, k)).len() == sum_lens(lens(v), k)
    decreases k
{
    if k > 0 {
        lemma_flat_len(v, k - 1);
        assert(v.subrange(0, k).drop_last() =~= v.subrange(0, k - 1));
        assert(v.subrange(0, k).last() == v[k - 1]);
    }
}
pub proof fn lemma_flat_one<A>(x: Seq<A>) ensures flat(seq![x]) =~= x
{ assert(seq![x].drop_last() =~= Seq::<Seq<A>>::empty()); assert(flat(seq![x].drop_last()) =~= Seq::<A>::empty()); }

pub proof fn lemma_tail<A>(v: Seq<Seq<A>>, k: int, off: int, sent: int)
    requires 0 <= k < v.len(), 0 <= off <= v[k].len(), sum_lens(lens(v), k) + off == sent,
        forall|i: int| 0 <= i < v.len() ==> (#[trigger] v[i]).len() <= usize::MAX
    ensures sent <= flat(v).len(),
        flat(seq![v[k].subrange(off, v[k].len() as int)] + v.subrange(k + 1, v.len() as int)) =~= flat(v).subrange(sent, flat(v).len() as int)
{
    let pre = v.subrange(0, k); let tail = v.subrange(k + 1, v.len() as int);
    assert(v =~= pre + seq![v[k]] + tail);
    lemma_flat_append(pre + seq![v[k]], tail);
    lemma_flat_append(pre, seq![v[k]]);
    lemma_flat_one(v[k]);
    lemma_flat_len(v, k);
    lemma_flat_append(seq![v[k].subrange(off, v[k].len() as int)], tail);
    lemma_flat_one(v[k].subrange(off, v[k].len() as int));
}

// the addresses an iovec covers, in order
pub open spec fn addrs(i: iovec) -> Seq<int> { Seq::new(i.iov_len as nat, |o: int| i.iov_base + o) }
pub open spec fn aviews(iovs: Seq<iovec>) -> Seq<Seq<int>> { Seq::new(iovs.len(), |i: int| addrs(iovs[i])) }
pub open spec fn iov_ok(i: iovec) -> bool { i.iov_base + i.iov_len <= usize::MAX }
// stream byte number `.1` stored at address `.0`
pub open spec fn deliver(a: Seq<int>, pos: int) -> Seq<(int, int)> { Seq::new(a.len(), |j: int| (a[j], pos + j)) }

pub struct RecvRec { pub at: int, pub n: int, pub files: Option<Seq<int>> }
pub open spec fn fids(f: Option<Vec<File>>) -> Option<Seq<int>> { match f { Some(v) => Some(Seq::new(v@.len(), |i: int| v@[i].id@)), None => None } }
// ghost state of the socket: bytes handed to sendmsg so far and the record of each sendmsg that went through;
// stream position, where each received stream byte was stored, and the record of each recvmsg that went through
// `eof`: a receive with room for at least one byte returned 0 (end of stream); `stalled`: a send of at least one byte was accepted as 0
pub struct Endpoint { pub wire: Ghost<Seq<u8>>, pub calls: Ghost<Seq<SendRec>>, pub pos: Ghost<int>, pub stored: Ghost<Seq<(int, int)>>, pub rcalls: Ghost<Seq<RecvRec>>, pub eof: Ghost<bool>, pub stalled: Ghost<bool>,
    // A-RETRY-FINITE: how many more times the socket may answer `retry` (EAGAIN/EINTR/ENOBUFS/ENOMEM); used only as a termination measure
    pub retry_budget: Ghost<nat>,
    // descriptors the kernel installed in this process through recvmsg control data, in arrival order
    pub raw: Ghost<Seq<int>> }

impl Endpoint {
    // assumed: A-OS recvmsg stores the next n (<= capacity) stream bytes at the iovecs' addresses in order; nothing on error
    #[verifier::external_body]
    pub fn recv_into_iovec(&mut self, iovs: &mut Vec<iovec>) -> (r: Result<(usize, Option<Vec<File>>)>)
        requires forall|i: int| 0 <= i < old(iovs)@.len() ==> iov_ok(#[trigger] old(iovs)@[i])
        ensures final(iovs)@ == old(iovs)@,
            match r {
                Ok((n, f)) => n <= flat(aviews(old(iovs)@)).len() && final(self).pos@ == old(self).pos@ + n
                    && final(self).stored@ =~= old(self).stored@ + deliver(flat(aviews(old(iovs)@)).subrange(0, n as int), old(self).pos@)
                    && final(self).rcalls@ == old(self).rcalls@.push(RecvRec { at: old(self).pos@, n: n as int, files: fids(f) })
                    && final(self).eof@ == (old(self).eof@ || (n == 0 && flat(aviews(old(iovs)@)).len() > 0)),
                Err(e) => final(self).pos@ == old(self).pos@ && final(self).stored@ == old(self).stored@ && final(self).rcalls@ == old(self).rcalls@ && final(self).eof@ == old(self).eof@
                    && (e is SocketRetry ==> final(self).retry_budget@ < old(self).retry_budget@),
            }
    { unimplemented!() }
}


pub open spec fn views(iovs: Seq<&[u8]>) -> Seq<Seq<u8>> { Seq::new(iovs.len(), |i: int| iovs[i]@) }
pub struct SendRec { pub at: int, pub with_fds: Option<Seq<RawFd>>, pub n: int }

impl Endpoint {
    // assumed: A-OS sendmsg transfers the first n (<= offered) bytes in order together with the descriptors of that call; nothing on error
    #[verifier::external_body]
    pub fn send_iovec(&mut self, iovs: &Vec<&[u8]>, fds: Option<&[RawFd]>) -> (r: Result<usize>)
        ensures
            match r {
                Ok(n) => n <= flat(views(iovs@)).len() && final(self).wire@ == old(self).wire@ + flat(views(iovs@)).subrange(0, n as int)
                    && final(self).calls@ == old(self).calls@.push(SendRec { at: old(self).wire@.len() as int, with_fds: match fds { Some(f) => Some(f@), None => None }, n: n as int })
                    && final(self).stalled@ == (old(self).stalled@ || (n == 0 && flat(views(iovs@)).len() > 0)),
                Err(e) => final(self).wire@ == old(self).wire@ && final(self).calls@ == old(self).calls@ && final(self).stalled@ == old(self).stalled@
                    && (e is SocketRetry ==> final(self).retry_budget@ < old(self).retry_budget@),
            }
    { unimplemented!() }
}


pub open spec fn fds_first_byte_only(from: int, calls: Seq<SendRec>, first: int, fds: Option<Seq<RawFd>>) -> bool {
    forall|i: int| from <= i < calls.len() ==>
        ((#[trigger] calls[i]).at == first ==> calls[i].with_fds == fds) && (calls[i].at != first ==> calls[i].with_fds is None)
}
pub open spec fn ofds(fds: Option<&[RawFd]>) -> Option<Seq<RawFd>> { match fds { Some(f) => Some(f@), None => None } }
// descriptors are kept from the chunk that carried the first byte and from no other
pub open spec fn first_chunk_files(rc0: Seq<RecvRec>, rc: Seq<RecvRec>, pos0: int, n: int, files: Option<Seq<int>>) -> bool {
    rc.len() >= rc0.len() && rc.subrange(0, rc0.len() as int) =~= rc0
    && (n == 0 ==> files is None)
    && (n > 0 ==> rc.len() > rc0.len() && rc[rc0.len() as int].at == pos0 && rc[rc0.len() as int].n > 0 && rc[rc0.len() as int].files == files)
    && forall|i: int| rc0.len() <= i < rc.len() ==> (#[trigger] rc[i]).at >= pos0 && (rc[i].at == pos0 && rc[i].n > 0 ==> i == rc0.len())
}
// ---- R19 targets (assumed: the adapter expressions mean what these contracts say)
// R19 target: iov_lens.iter().sum() (REQUIRES is the absence of overflow: `sum` panics / wraps otherwise)
#[verifier::external_body]
pub fn sum_of_lens(v: &Vec<usize>) -> (r: usize)
    requires sum_lens(v@, v@.len() as int) <= usize::MAX
    ensures r == sum_lens(v@, v@.len() as int)
{ v.iter().sum() }
// R19 target: iovs.iter().map(|iov| iov.len()).collect() is the list of lengths; slice lengths fit isize (A-SLICE)
#[verifier::external_body]
pub fn iov_lens_of(iovs: &[&[u8]]) -> (r: Vec<usize>)
    ensures r@ == lens(views(iovs@)), forall|i: int| 0 <= i < iovs@.len() ==> (#[trigger] iovs@[i])@.len() <= usize::MAX
{ iovs.iter().map(|iov| iov.len()).collect() }

// R19 target: &s[off..] (REQUIRES is Index's bounds check: a failing one is a panic)
#[verifier::external_body]
pub fn slice_from<'a>(s: &'a [u8], off: usize) -> (r: &'a [u8])
    requires off <= s@.len()
    ensures r@ == s@.subrange(off as int, s@.len() as int)
{ &s[off..] }

// R19 target: [&[first], &iovs[from..]].concat() (REQUIRES is the range bounds check)
#[verifier::external_body]
pub fn concat_tail<'a>(first: &'a [u8], iovs: &[&'a [u8]], from: usize) -> (r: Vec<&'a [u8]>)
    requires from <= iovs@.len()
    ensures views(r@) == seq![first@] + views(iovs@).subrange(from as int, iovs@.len() as int)
{ [&[first], &iovs[from..]].concat() }

// R19 target: iovs.iter().map(|iov| iov.iov_len).collect()
#[verifier::external_body]
pub fn iovec_lens_of(iovs: &[iovec]) -> (r: Vec<usize>)
    ensures r@ == lens(aviews(iovs@))
{ iovs.iter().map(|iov| iov.iov_len).collect() }

// R19 target: [&[first], &iovs[from..]].concat() (REQUIRES is the range bounds check)
// R19 target: [&[first], &iovs[from..]].concat() on iovec (REQUIRES is the range bounds check)
#[verifier::external_body]
pub fn concat_tail_iovec(first: iovec, iovs: &[iovec], from: usize) -> (r: Vec<iovec>)
    requires from <= iovs@.len()
    ensures r@ == seq![first] + iovs@.subrange(from as int, iovs@.len() as int)
{ unimplemented!() }

