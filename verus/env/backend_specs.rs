// ===== backend request server: low-level environment stubs + specification vocabulary =====

// R5 target: mem::size_of::<T>()  (sizes proved-by: c01_layout_table; spec_size() per type is the table entry)
#[verifier::external_body]
pub fn size_of_<T: ByteValued>() -> (r: usize) ensures r as nat == T::spec_size(), r <= 4096 { unimplemented!() }

// R7 target: unsafe { ptr::read_unaligned(buf.as_ptr() as *const T) }.  The REQUIRES is the memory-safety
// condition of the unsafe read (C05 "never reads outside the received message"); ensures: the value is the
// decoding of the first size_of::<T>() bytes (byte images proved-by: c05_extract_request_body_*).
#[verifier::external_body]
pub fn read_unaligned_<T: ByteValued>(buf: &[u8]) -> (r: T)
    requires buf@.len() >= T::spec_size()
    ensures r == T::decode(buf@.subrange(0, T::spec_size() as int))
{ unimplemented!() }

// R7 target: unsafe { &*(buf.as_ptr() as *const T) }
#[verifier::external_body]
pub fn ref_cast_<T: ByteValued>(buf: &[u8]) -> (r: &T)
    requires buf@.len() >= T::spec_size()
    ensures *r == T::decode(buf@.subrange(0, T::spec_size() as int))
{ unimplemented!() }

// R7 target: unsafe { slice::from_raw_parts(buf.as_ptr().add(off) as *const T, n) }
pub open spec fn decode_at<T: ByteValued>(buf: Seq<u8>, off: int, i: int) -> Seq<u8> {
    buf.subrange(off + i * T::spec_size() as int, off + (i + 1) * T::spec_size() as int)
}
#[verifier::external_body]
pub fn slice_cast_<T: ByteValued>(buf: &[u8], off: usize, n: usize) -> (r: &[T])
    requires off + n * T::spec_size() <= buf@.len()
    ensures r@ == Seq::new(n as nat, |i: int| T::decode(decode_at::<T>(buf@, off as int, i)))
{ unimplemented!() }

// ---- specification vocabulary for arm contracts
pub open spec fn need_reply<R: Req>(h: VhostUserMsgHeader<R>) -> bool { h.flags & 8 != 0 }
pub open spec fn req_ok<R: Req>(h: VhostUserMsgHeader<R>) -> bool { (h.flags & 4 != 0) == false && (h.flags & 3) == 1 }

pub open spec fn reply_frame<R: Req, T: ByteValued>(req: VhostUserMsgHeader<R>, body: T, payload: Seq<u8>, fds: Seq<int>) -> Frame {
    Frame { request: req.request, flags: 5, size: (T::spec_size() + payload.len()) as u32, body: body.bytes(), payload: payload, fds: fds }
}
pub open spec fn ack_frame<R: Req>(req: VhostUserMsgHeader<R>, val: u64) -> Frame {
    reply_frame(req, VhostUserU64 { value: val }, Seq::<u8>::empty(), Seq::<int>::empty())
}

pub open spec fn nothing_done(a: BackendReqHandler, b: BackendReqHandler) -> bool {
    b.backend.trace@ == a.backend.trace@ && b.main_sock.sent@ == a.main_sock.sent@
}
pub open spec fn neg_unchanged(a: BackendReqHandler, b: BackendReqHandler) -> bool {
    b.virtio_features == a.virtio_features && b.acked_virtio_features == a.acked_virtio_features
        && b.acked_protocol_features == a.acked_protocol_features && b.reply_ack_enabled == a.reply_ack_enabled
        && b.error == a.error
}
pub open spec fn called(a: BackendReqHandler, b: BackendReqHandler, c: Call) -> bool {
    b.backend.trace@ == a.backend.trace@.push(c)
}
pub open spec fn sent_nothing(a: BackendReqHandler, b: BackendReqHandler) -> bool { b.main_sock.sent@ == a.main_sock.sent@ }
pub open spec fn sent_one(a: BackendReqHandler, b: BackendReqHandler, f: Frame) -> bool { b.main_sock.sent@ == a.main_sock.sent@.push(f) }

// ack rule (C04): one 8-byte ack, 0 iff the handler succeeded, iff reply-ack is negotiated in the state the
// request leaves behind and the request carries NEED_REPLY; nothing otherwise.  (io failure: no claim)
pub open spec fn ack_rule<R: Req>(a: BackendReqHandler, b: BackendReqHandler, hdr: VhostUserMsgHeader<R>, ok: bool) -> bool {
    b.main_sock.io_failed@ || (
        if ack_negotiated(b.virtio_features, b.acked_protocol_features) && need_reply(hdr) {
            sent_one(a, b, ack_frame(hdr, if ok { 0u64 } else { 1u64 }))
        } else { sent_nothing(a, b) })
}
// result rule (C03): unless the socket failed, the arm returns what the handler returned
pub open spec fn res_rule(b: BackendReqHandler, r: Result<()>, ok: bool) -> bool {
    b.main_sock.io_failed@ || (r is Ok) == ok
}

// the state every arm starts from (established by the prologue, verified as `prologue` below)
pub open spec fn arm_pre(s: BackendReqHandler, hdr: VhostUserMsgHeader<FrontendReq>, size: usize, buf: Seq<u8>, files: Option<Vec<File>>) -> bool {
    srv_inv(s) && s.error is None && !s.main_sock.io_failed@
        && hdr_valid_spec(hdr) && size == hdr.size && buf.len() == size
        && (files is Some ==> 1 <= files->Some_0@.len() <= 32)
}
// descriptor policy (C05/C09): requests that take no descriptor never reach their arm with one attached
pub open spec fn takes_fds(code: u32) -> bool {
    code == 5 || code == 6 || code == 7 || code == 12 || code == 13 || code == 14 || code == 21 || code == 32
        || code == 33 || code == 37 || code == 42
}
