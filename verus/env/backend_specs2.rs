// ===== backend request server: receive stubs and request-level specification functions =====

pub open spec fn rx_same(a: BackendReqHandler, b: BackendReqHandler) -> bool {
    b.main_sock.rx_hdrs@ == a.main_sock.rx_hdrs@ && b.main_sock.rx_body@ == a.main_sock.rx_body@
}
pub open spec fn ret_ok(s: BackendReqHandler) -> bool { s.backend.rets@.last() is OkUnit }

impl<R: Req> Endpoint<R> {
    // proved-by: c08_recv_header_* (kani, connection.rs): Ok only for a complete, VALID header; at most 32 files
    #[verifier::external_body]
    pub fn recv_header(&mut self) -> (r: Result<(VhostUserMsgHeader<R>, Option<Vec<File>>)>)
        ensures
            final(self).sent@ == old(self).sent@, final(self).io_failed@ == old(self).io_failed@,
            final(self).rx_body@ == old(self).rx_body@,
            r is Ok ==> final(self).rx_hdrs@ == old(self).rx_hdrs@ + 1 && hdr_valid_spec(r->Ok_0.0)
                && (r->Ok_0.1 is Some ==> 1 <= r->Ok_0.1->Some_0@.len() <= 32),
    { unimplemented!() }

    // proved-by: c08_recv_data_segmentation_bounded : at most `len` bytes into a fresh zeroed buffer of exactly `len` bytes
    #[verifier::external_body]
    pub fn recv_data(&mut self, len: usize) -> (r: Result<(usize, Vec<u8>)>)
        ensures
            final(self).sent@ == old(self).sent@, final(self).io_failed@ == old(self).io_failed@,
            final(self).rx_hdrs@ == old(self).rx_hdrs@,
            r is Ok ==> final(self).rx_body@ == old(self).rx_body@.push(len as nat) && r->Ok_0.0 <= len && r->Ok_0.1@.len() == len,
    { unimplemented!() }
}

// R6 targets: Option::ok_or(Error::X)   (assumed: core library semantics)
pub fn ok_or_invalid_message<T>(o: Option<T>) -> (r: Result<T>)
    ensures match o { Some(v) => r == Ok::<T, Error>(v), None => r == Err::<T, Error>(Error::InvalidMessage) }
{ match o { Some(v) => Ok(v), None => Err(Error::InvalidMessage) } }
pub fn ok_or_incorrect_fds<T>(o: Option<T>) -> (r: Result<T>)
    ensures match o { Some(v) => r == Ok::<T, Error>(v), None => r == Err::<T, Error>(Error::IncorrectFds) }
{ match o { Some(v) => Ok(v), None => Err(Error::IncorrectFds) } }
pub fn ok_or_invalid_param<T>(o: Option<T>) -> (r: Result<T>)
    ensures match o { Some(v) => r == Ok::<T, Error>(v), None => r == Err::<T, Error>(Error::InvalidParam) }
{ match o { Some(v) => Ok(v), None => Err(Error::InvalidParam) } }

// ---- request-level specification functions (what a well-formed request of each kind is)
pub open spec fn vring_fd_value(buf: Seq<u8>) -> u64 { VhostUserU64::decode(buf.subrange(0, 8)).value }

pub open spec fn config_of(buf: Seq<u8>) -> VhostUserConfig { VhostUserConfig::decode(buf.subrange(0, 12)) }
pub open spec fn config_req_ok(buf: Seq<u8>) -> bool {
    12 <= buf.len() <= 4096 && config_valid(config_of(buf)) && buf.len() - 12 == config_of(buf).size
}

pub open spec fn mem_table_hdr(buf: Seq<u8>) -> VhostUserMemory { VhostUserMemory::decode(buf.subrange(0, 8)) }
pub open spec fn mem_table_regions(buf: Seq<u8>) -> Seq<VhostUserMemoryRegion> {
    Seq::new(mem_table_hdr(buf).num_regions as nat, |i: int| VhostUserMemoryRegion::decode(decode_at::<VhostUserMemoryRegion>(buf, 8, i)))
}
pub open spec fn mem_table_ok(hdr: VhostUserMsgHeader<FrontendReq>, size: usize, buf: Seq<u8>, files: Option<Vec<File>>) -> bool {
    req_ok(hdr) && size >= 8 && memory_valid(mem_table_hdr(buf))
        && size == 8 + mem_table_hdr(buf).num_regions * 32
        && files is Some && files->Some_0@.len() == mem_table_hdr(buf).num_regions
        && forall|i: int| 0 <= i < mem_table_hdr(buf).num_regions ==> region_valid(#[trigger] mem_table_regions(buf)[i])
}
