// ===== frontend endpoint: small environment helpers (targets of rewrite rules) =====
pub open spec fn self_err(n: FrontendInternal) -> bool { n.error is Some }
pub open spec fn to_region_spec(x: VhostUserMemoryRegionInfo) -> VhostUserMemoryRegion {
    VhostUserMemoryRegion { guest_phys_addr: x.guest_phys_addr, memory_size: x.memory_size, user_addr: x.userspace_addr, mmap_offset: x.mmap_offset }
}
// R12 targets: one-element descriptor arrays / slices lent to the send path (assumed: array-to-slice coercion)
pub struct Fd1 { pub fd: RawFd }
pub fn fd1arr(fd: RawFd) -> (r: Fd1) ensures r.fd == fd { Fd1 { fd } }
pub trait AsFd1 { spec fn fdv(&self) -> int; }
impl AsFd1 for RawFd { open spec fn fdv(&self) -> int { *self as int } }
impl AsFd1 for Fd1 { open spec fn fdv(&self) -> int { self.fd as int } }
// R12 target
#[verifier::external_body]
pub fn fd1<X: AsFd1>(x: X) -> (r: Option<&'static [RawFd]>) ensures opt_rawfds(r) == seq![x.fdv()] { unimplemented!() }
// R12 target
#[verifier::external_body]
pub fn some_slice(v: &Vec<RawFd>) -> (r: Option<&[RawFd]>) ensures r is Some, r->Some_0@ == v@, opt_rawfds(r) == fds_int(v@) { unimplemented!() }
// R6 targets: integer widening `into()` (assumed: core From impls)
pub fn bool_into_u32(b: bool) -> (r: u32) ensures r == (if b { 1u32 } else { 0u32 }) { if b { 1 } else { 0 } }
pub fn u16_into_u32(x: u16) -> (r: u32) ensures r == x as u32 { x as u32 }
// R15 target: vec![0; n]
#[verifier::external_body]
pub fn vec_zeroed(n: usize) -> (r: Vec<u8>) ensures r@.len() == n { unimplemented!() }
// R12 target of `Some(&[fd.as_raw_fd()])` with an OwnedFd lent for transmission
#[verifier::external_body]
pub fn fds1(f: &OwnedFd) -> (r: Option<&[RawFd]>) ensures opt_rawfds(r) == seq![f.fd as int] { unimplemented!() }

// SET_MEM_TABLE request contents for a caller-supplied region list
pub open spec fn region_bad(x: VhostUserMemoryRegionInfo) -> bool { x.memory_size == 0 || x.mmap_handle < 0 }
pub open spec fn mt_regions(rs: Seq<VhostUserMemoryRegionInfo>) -> Seq<VhostUserMemoryRegion> { rs.map(|i: int, x: VhostUserMemoryRegionInfo| to_region_spec(x)) }
pub open spec fn mt_fds(rs: Seq<VhostUserMemoryRegionInfo>) -> Seq<int> { rs.map(|i: int, x: VhostUserMemoryRegionInfo| x.mmap_handle as int) }
pub open spec fn fds_int(v: Seq<RawFd>) -> Seq<int> { v.map(|i: int, f: RawFd| f as int) }
