// ===== contract environment for the "pure" unit: loops and arithmetic that need unbounded reasoning =====
pub enum IoError { Os(i32), Other, InvalidData }

// ---------- handler.rs: address translation
pub enum VhostUserHandlerError { MissingMemoryMapping, Other }
pub type VhostUserHandlerResult<T> = core::result::Result<T, VhostUserHandlerError>;
pub struct AddrMapping { pub vmm_addr: u64, pub size: u64, pub gpa_base: u64 }
// what the ring at one index is allowed to be told (pinned by the wrapper's precondition to the request's arguments)
pub struct Expect { pub desc: u64, pub avail: u64, pub used: u64, pub used_idx: u16 }
pub enum VirtQueError { Any }
pub enum VhostUserError { InvalidParam, BackendInternalError, ReqHandlerError(IoError) }
pub type VhostUserResult<T> = core::result::Result<T, VhostUserError>;
// ring handle: VringT methods are &self (interior mutability in the real code); the stubs carry the ARGUMENT contract as a
// precondition: a call with any other value fails to verify. That each call occurs is a scan obligation.
pub struct VringStub { pub exp: Ghost<Expect> }
impl VringStub {
    // argument-contract stub: REQUIRES pins the arguments to the request's translated addresses (the real VringT method: kani c14_*)
    #[verifier::external_body]
    pub fn set_queue_info(&self, desc_table: u64, avail_ring: u64, used_ring: u64) -> (r: core::result::Result<(), VirtQueError>)
        requires desc_table == self.exp@.desc, avail_ring == self.exp@.avail, used_ring == self.exp@.used
    { unimplemented!() }
    // assumed: ENV reads the used index from guest memory (any value)
    #[verifier::external_body]
    pub fn queue_used_idx(&self) -> (r: core::result::Result<u16, VirtQueError>)
        ensures r is Ok ==> r->Ok_0 == self.exp@.used_idx
    { unimplemented!() }
    // argument-contract stub: REQUIRES pins the argument to the value read by queue_used_idx
    #[verifier::external_body]
    pub fn set_queue_next_used(&self, idx: u16) requires idx == self.exp@.used_idx { unimplemented!() }
}
pub struct VhostUserVringAddrFlags { pub bits: u32 }
pub struct VhostUserHandler { pub mappings: Vec<AddrMapping>, pub vrings: Vec<VringStub> }
// R6 targets
pub fn vrings_get(v: &Vec<VringStub>, i: usize) -> (r: VhostUserResult<&VringStub>)
    ensures (r is Ok) == (i < v@.len()), r is Ok ==> *r->Ok_0 == v@[i as int]
{ if i < v.len() { Ok(&v[i]) } else { Err(VhostUserError::InvalidParam) } }
pub fn wrap_handler_err(e: VhostUserHandlerError) -> (r: VhostUserError) { VhostUserError::ReqHandlerError(IoError::Other) }
pub open spec fn is_translation(ms: Seq<AddrMapping>, va: u64, g: u64) -> bool {
    exists|i: int| 0 <= i < ms.len() && contains_va(#[trigger] ms[i], va) && g == ms[i].gpa_base + (va - ms[i].vmm_addr)
        && forall|j: int| 0 <= j < i ==> !contains_va(#[trigger] ms[j], va)
}

// representation invariant of the mapping table (established by set_mem_table / add_mem_region from regions that
// passed the message validators: non-zero size, no 64-bit wrap of the user and guest ranges)
pub open spec fn mapping_ok(m: AddrMapping) -> bool { m.size > 0 && m.vmm_addr + m.size <= u64::MAX && m.gpa_base + m.size <= u64::MAX }
pub open spec fn mappings_ok(ms: Seq<AddrMapping>) -> bool { forall|i: int| 0 <= i < ms.len() ==> mapping_ok(#[trigger] ms[i]) }
pub open spec fn contains_va(m: AddrMapping, va: u64) -> bool { m.vmm_addr <= va && va < m.vmm_addr + m.size }

// ---------- bitmap.rs
pub const LOG_PAGE_SIZE: usize = 0x1000;
pub const LOG_WORD_SIZE: usize = 8;
// the shared log: every atomic OR into it is recorded (R17 target of `self.logmem[word].fetch_or(mask, Relaxed)`).
// The REQUIRES of fetch_or_at is `Index::index`'s assertion (word < len): no panic, nothing outside the mapping.
pub struct MmapLogReg { pub len: usize, pub writes: Ghost<Seq<(int, int)>> }
impl MmapLogReg {
    pub fn len(&self) -> (r: usize) ensures r == self.len { self.len }
    // assumed: A-ATOMIC (AtomicU8::fetch_or is an atomic read-modify-write that sets exactly the mask bits)
    #[verifier::external_body]
    pub fn fetch_or_at(&mut self, word: usize, mask: u8)
        requires word < old(self).len
        ensures final(self).len == old(self).len, final(self).writes@ == old(self).writes@.push((word as int, mask as int))
    { unimplemented!() }
}
pub struct AtomicBitmapMmap { pub logmem: MmapLogReg, pub pages_before_region: usize, pub number_of_pages: usize }
// well-formedness established by `new`: the last page of the region has its word inside the log
pub open spec fn bitmap_wf(b: AtomicBitmapMmap) -> bool {
    b.number_of_pages == 0 || (b.pages_before_region + b.number_of_pages - 1) / 8 < b.logmem.len
}
pub struct RegionStub { pub start: u64, pub len: u64 }
impl RegionStub {
    pub fn start_addr_raw(&self) -> (r: u64) ensures r == self.start { self.start }
    pub fn len(&self) -> (r: u64) ensures r == self.len { self.len }
}
// R6 targets: io_try_into() (u64 -> usize is the identity on a 64-bit target), ok_or(InvalidData)
pub fn io_try_into_usize(x: u64) -> (r: core::result::Result<usize, IoError>) ensures r == Ok::<usize, IoError>(x as usize) { Ok(x as usize) }
pub fn ok_or_invalid_data(o: Option<usize>) -> (r: core::result::Result<usize, IoError>)
    ensures match o { Some(v) => r == Ok::<usize, IoError>(v), None => r is Err }
{ match o { Some(v) => Ok(v), None => Err(IoError::InvalidData) } }
pub fn invalid_data() -> (r: IoError) { IoError::InvalidData }

// the pages a write of `len` bytes at region offset `offset` touches, clipped to the region, as absolute page numbers
pub open spec fn first_page(offset: usize) -> int { offset as int / 4096 }
pub open spec fn last_page(offset: usize, len: usize) -> int {
    (if offset + len - 1 > usize::MAX { usize::MAX as int } else { offset + len - 1 }) / 4096
}
pub open spec fn expected_writes(b: AtomicBitmapMmap, lo: int, hi: int) -> Seq<(int, int)>
    decreases hi - lo
{
    if hi <= lo { Seq::<(int, int)>::empty() }
    else { expected_writes(b, lo, hi - 1).push((((b.pages_before_region + (hi - 1)) / 8) as int, pow2_bit((b.pages_before_region + (hi - 1)) % 8))) }
}
pub open spec fn pow2_bit(k: int) -> int {
    if k == 0 { 1 } else if k == 1 { 2 } else if k == 2 { 4 } else if k == 3 { 8 } else if k == 4 { 16 } else if k == 5 { 32 } else if k == 6 { 64 } else { 128 }
}
pub proof fn lemma_shl_bit(k: usize)
    requires k < 8
    ensures (1u8 << k) as int == pow2_bit(k as int)
{
    assert(1u8 << 0usize == 1 && 1u8 << 1usize == 2 && 1u8 << 2usize == 4 && 1u8 << 3usize == 8 && 1u8 << 4usize == 16 && 1u8 << 5usize == 32 && 1u8 << 6usize == 64 && 1u8 << 7usize == 128) by (bit_vector);
}


// ---------- bitmap.rs: BitmapMmapRegion = a replaceable inner bitmap shared by all slices of a region + the slice's base offset
// what AtomicBitmapMmap::mark_dirty(offset, len) does to the log (its verified postcondition, named)
pub open spec fn md_post(b0: AtomicBitmapMmap, b1: AtomicBitmapMmap, offset: usize, len: usize) -> bool {
    b1.pages_before_region == b0.pages_before_region && b1.number_of_pages == b0.number_of_pages && b1.logmem.len == b0.logmem.len
    && (len == 0 ==> b1.logmem.writes@ == b0.logmem.writes@)
    && (len > 0 ==> b1.logmem.writes@ == b0.logmem.writes@ + expected_writes(b0, first_page(offset),
            if last_page(offset, len) + 1 < b0.number_of_pages { last_page(offset, len) + 1 } else if first_page(offset) < b0.number_of_pages { b0.number_of_pages as int } else { first_page(offset) }))
}
// `inner: Arc<RwLock<Option<AtomicBitmapMmap>>>` (R8; assumed: A-LOCK). `id`: identity of the shared cell (slices share it)
pub struct InnerCell { pub id: Ghost<int>, pub b: Option<AtomicBitmapMmap> }
impl InnerCell {
    // R8 target of `self.inner.read().unwrap()` / `self.inner.write().unwrap()`
    pub fn guard(&mut self) -> (g: &mut Option<AtomicBitmapMmap>) ensures *g == old(self).b, final(self).b == *final(g), final(self).id == old(self).id { &mut self.b }
    // R23 target of `Arc::clone(&self.inner)` (assumed: A-CLONE the clone refers to the same cell)
    #[verifier::external_body]
    pub fn share(&self) -> (r: InnerCell) ensures r.id == self.id, r.b == self.b { unimplemented!() }
}
pub struct BitmapMmapRegion { pub inner: InnerCell, pub base_address: usize }
pub open spec fn region_bitmap_wf(r: BitmapMmapRegion) -> bool {
    r.inner.b is Some ==> bitmap_wf(r.inner.b->Some_0) && r.inner.b->Some_0.pages_before_region + r.inner.b->Some_0.number_of_pages <= usize::MAX
}

// ---------- handler.rs: memory-table updates (ADD_MEM_REG / REM_MEM_REG). vm-memory is modelled by its documented effect on a
// ghost view of the region table (assumed: A-VMM); the backend is told through update_memory.
// `logged`: the region's bitmap has an inner log installed (dirty pages are recorded)
pub struct RegionDesc { pub gpa: u64, pub size: u64, pub file: int, pub off: u64, pub logged: bool }
pub open spec fn all_logged(v: Seq<RegionDesc>) -> bool { forall|i: int| 0 <= i < v.len() ==> (#[trigger] v[i]).logged }
pub struct FileStub { pub id: Ghost<int> }
pub struct MmapRegionStub { pub size: u64, pub file: int, pub off: u64 }
pub struct GuestRegionStub { pub d: RegionDesc }
pub struct GuestAddress(pub u64);
#[derive(Clone, Copy)]
pub struct RegionMsg { pub guest_phys_addr: u64, pub memory_size: u64, pub user_addr: u64, pub mmap_offset: u64 }
// vm-memory's FileOffset / MmapRegion::from_file: the boundary below VhostUserMemoryRegion::mmap_region (which is extracted)
pub struct FileOffset { pub file: Ghost<int>, pub off: u64 }
impl FileOffset { pub fn new(file: FileStub, start: u64) -> (r: FileOffset) ensures r.file@ == file.id@, r.off == start { FileOffset { file: file.id, off: start } } }
pub struct MmapErr;
impl MmapRegionStub {
    // assumed: A-VMM MmapRegion::from_file maps `size` bytes of the file starting at the given offset (may fail)
    #[verifier::external_body]
    pub fn from_file(fo: FileOffset, size: usize) -> (r: core::result::Result<MmapRegionStub, MmapErr>)
        ensures r is Ok ==> r->Ok_0 == (MmapRegionStub { size: size as u64, file: fo.file@, off: fo.off })
    { unimplemented!() }
}
// R6 target of GuestRegionMmap::new(mmap, GuestAddress(gpa)).ok_or(..)
#[verifier::external_body]
pub fn guest_region_new(m: MmapRegionStub, a: GuestAddress) -> (r: VhostUserResult<GuestRegionStub>)
    // a freshly created region has NewBitmap::with_len's bitmap: no inner log (proved-by: c15_fresh_region_bitmap_unlogged)
    ensures r is Ok ==> r->Ok_0.d == (RegionDesc { gpa: a.0, size: m.size, file: m.file, off: m.off, logged: false })
{ unimplemented!() }
pub struct MemSnapshot { pub regions: Seq<RegionDesc> }
pub struct AtomicMemStub { pub view: Ghost<Seq<RegionDesc>> }
impl AtomicMemStub {
    // assumed: A-VMM GuestMemoryAtomic::memory() is a snapshot of the current collection
    #[verifier::external_body]
    pub fn memory(&self) -> (r: MemSnapshot) ensures r.regions == self.view@ { unimplemented!() }
    // R8 target of `self.atomic_mem.lock().unwrap().replace(mem)`
    #[verifier::external_body]
    pub fn replace_with(&mut self, m: MemSnapshot) ensures final(self).view@ == m.regions { unimplemented!() }
    #[verifier::external_body]
    pub fn clone_handle(&self) -> (r: AtomicMemHandle) ensures r.view == self.view@ { unimplemented!() }
}
pub struct AtomicMemHandle { pub view: Seq<RegionDesc> }
impl MemSnapshot {
    // R8 target of `(*guard).clone()`: GuestRegionCollection::clone shares the same regions (assumed: A-VMM)
    #[verifier::external_body]
    pub fn clone_map(&self) -> (r: MemSnapshot) ensures r.regions == self.regions { unimplemented!() }
    // GuestMemoryMmap::insert_region / remove_region (assumed: A-VMM): a NEW collection; the original is untouched
    #[verifier::external_body]
    pub fn insert_region(&self, g: GuestRegionStub) -> (r: VhostUserResult<MemSnapshot>)
        ensures r is Ok ==> r->Ok_0.regions == self.regions.push(g.d)
    { unimplemented!() }
    // assumed: A-VMM GuestMemoryMmap::remove_region
    #[verifier::external_body]
    pub fn remove_region(&self, a: GuestAddress, size: u64) -> (r: VhostUserResult<(MemSnapshot, GuestRegionStub)>)
        ensures r is Ok ==> (exists|i: int| 0 <= i < self.regions.len() && self.regions[i].gpa == a.0 && self.regions[i].size == size
                              && r->Ok_0.0.regions == self.regions.remove(i) && r->Ok_0.1.d == self.regions[i]),
            r is Err <== !(exists|i: int| 0 <= i < self.regions.len() && self.regions[i].gpa == a.0 && self.regions[i].size == size)
    { unimplemented!() }
}
pub struct BackendStub2 { pub updates: Ghost<Seq<Seq<RegionDesc>>> }
impl BackendStub2 {
    // assumed: ENV-HANDLER backend.update_memory may accept or refuse (any result); the call is recorded
    #[verifier::external_body]
    pub fn update_memory(&mut self, m: AtomicMemHandle) -> (r: VhostUserResult<()>)
        ensures final(self).updates@ == old(self).updates@.push(m.view)
    { unimplemented!() }
}
pub struct MemHandler { pub backend: BackendStub2, pub atomic_mem: AtomicMemStub, pub mappings: Vec<AddrMapping> }
// R6 target of `self.mappings.retain(|mapping| mapping.<field> != value)` (assumed: Vec::retain keeps exactly the elements
// satisfying the predicate, in order)
#[allow(non_camel_case_types)] pub enum AddrField { vmm_addr, size, gpa_base }
pub open spec fn addr_field(m: AddrMapping, f: AddrField) -> u64 { match f { AddrField::vmm_addr => m.vmm_addr, AddrField::size => m.size, AddrField::gpa_base => m.gpa_base } }
#[verifier::external_body]
pub fn retain_field_ne(v: &mut Vec<AddrMapping>, f: AddrField, val: u64)
    ensures final(v)@ == old(v)@.filter(|m: AddrMapping| addr_field(m, f) != val)
{ unimplemented!() }


// ---- SET_MEM_TABLE (handler.rs set_mem_table)
// R24 target of `for (region, file) in ctx.iter().zip(files)`: zip pulls the next element of the second iterator after the
// first one yielded; the loop ends when either side is exhausted
#[verifier::external_body]
pub fn zip_next(files: &mut Vec<FileStub>) -> (r: Option<FileStub>)
    ensures match r { Some(f) => old(files)@.len() > 0 && f == old(files)@[0] && final(files)@ == old(files)@.subrange(1, old(files)@.len() as int),
                      None => old(files)@.len() == 0 && final(files)@ == old(files)@ }
{ unimplemented!() }
pub open spec fn descs(v: Seq<GuestRegionStub>) -> Seq<RegionDesc> { Seq::new(v.len(), |i: int| v[i].d) }
// GuestMemoryMmap::from_regions (assumed: A-VMM): the collection of exactly these regions (it may also refuse, e.g. overlaps)
// assumed: A-VMM GuestMemoryMmap::from_regions (may refuse)
#[verifier::external_body]
pub fn mem_from_regions(v: Vec<GuestRegionStub>) -> (r: VhostUserResult<MemSnapshot>)
    ensures r is Ok ==> r->Ok_0.regions == descs(v@)
{ unimplemented!() }
// R6 target of GuestRegionMmap::new(..).ok_or(..) without the Arc wrapper
pub fn guest_region_new_plain(m: MmapRegionStub, a: GuestAddress) -> (r: VhostUserResult<GuestRegionStub>)
    ensures r is Ok ==> r->Ok_0.d == (RegionDesc { gpa: a.0, size: m.size, file: m.file, off: m.off, logged: false })
{ guest_region_new(m, a) }
pub open spec fn region_msg_ok(m: RegionMsg) -> bool { m.memory_size > 0 && m.user_addr + m.memory_size <= u64::MAX && m.guest_phys_addr + m.memory_size <= u64::MAX }
pub open spec fn table_view(ctx: Seq<RegionMsg>, files: Seq<FileStub>, n: int) -> Seq<RegionDesc> {
    Seq::new(n as nat, |j: int| RegionDesc { gpa: ctx[j].guest_phys_addr, size: ctx[j].memory_size, file: files[j].id@, off: ctx[j].mmap_offset, logged: false })
}
pub open spec fn table_mappings(ctx: Seq<RegionMsg>, n: int) -> Seq<AddrMapping> {
    Seq::new(n as nat, |j: int| AddrMapping { vmm_addr: ctx[j].user_addr, size: ctx[j].memory_size, gpa_base: ctx[j].guest_phys_addr })
}


// ---- SET_LOG_BASE (handler.rs set_log_base): "build all bitmaps first, then replace them in every current region"
pub struct VhostUserLog { pub mmap_size: u64, pub mmap_offset: u64 }
pub struct LogMapStub { pub id: Ghost<int> }
// R6 target of Arc::new(MmapLogReg::from_file(file.as_fd(), off, size).map_err(..)?) (assumed: A-VMM; may fail)
#[verifier::external_body]
pub fn log_from_file(file: &FileStub, off: u64, size: u64) -> (r: VhostUserResult<LogMapStub>) { unimplemented!() }
// a reference to the i-th region of a memory snapshot
pub struct RegionRef { pub idx: Ghost<int> }
pub struct InnerBitmapStub { pub for_region: Ghost<int>, pub log: Ghost<int> }
impl MemSnapshot {
    // R21 target of `mem.iter()`: the regions of the snapshot in order
    #[verifier::external_body]
    pub fn region_refs(&self) -> (r: Vec<RegionRef>)
        ensures r@.len() == self.regions.len(), forall|i: int| 0 <= i < r@.len() ==> (#[trigger] r@[i]).idx@ == i
    { unimplemented!() }
}
// R6 target of InnerBitmap::new(region, Arc::clone(&logmem)).map_err(..) — verified as AtomicBitmapMmap::new (new_bitmap above): may refuse
#[verifier::external_body]
pub fn inner_bitmap_new(region: &RegionRef, log: &LogMapStub) -> (r: VhostUserResult<InnerBitmapStub>)
    ensures r is Ok ==> r->Ok_0.for_region@ == region.idx@ && r->Ok_0.log@ == log.id@
{ unimplemented!() }
pub open spec fn set_logged(v: Seq<RegionDesc>, i: int) -> Seq<RegionDesc> {
    v.update(i, RegionDesc { gpa: v[i].gpa, size: v[i].size, file: v[i].file, off: v[i].off, logged: true })
}
impl AtomicMemStub {
    // R8 target of `(*region).bitmap().replace(bitmap)`: the region object is shared with the installed memory (Arc), so the
    // effect is on the current view (BitmapMmapRegion::replace installs the inner log: proved-by: c15_replace_installs_new_log)
    #[verifier::external_body]
    pub fn replace_bitmap(&mut self, region: &RegionRef, bitmap: &InnerBitmapStub)
        requires 0 <= region.idx@ < old(self).view@.len(), bitmap.for_region@ == region.idx@
        ensures final(self).view@ == set_logged(old(self).view@, region.idx@)
    { unimplemented!() }
}

// ---------- handler.rs: set_backend_req_fd — a newly attached backend-request channel inherits the negotiated settings (C14)
pub struct BackendProxyStub { pub reply_ack: bool, pub shared_object: bool, pub shmem: bool }
impl BackendProxyStub {
    // vhost::vhost_user::Backend::{set_reply_ack_flag, set_shared_object_flag, set_shmem_flag} (verified in unit `proxy`: set exactly that flag)
    // proved-by: unit proxy (Backend::set_reply_ack_flag sets exactly that flag)
    #[verifier::external_body] pub fn set_reply_ack_flag(&mut self, enable: bool)
        ensures final(self).reply_ack == enable, final(self).shared_object == old(self).shared_object, final(self).shmem == old(self).shmem { unimplemented!() }
    // proved-by: unit proxy
    #[verifier::external_body] pub fn set_shared_object_flag(&mut self, enable: bool)
        ensures final(self).shared_object == enable, final(self).reply_ack == old(self).reply_ack, final(self).shmem == old(self).shmem { unimplemented!() }
    // proved-by: unit proxy
    #[verifier::external_body] pub fn set_shmem_flag(&mut self, enable: bool)
        ensures final(self).shmem == enable, final(self).reply_ack == old(self).reply_ack, final(self).shared_object == old(self).shared_object { unimplemented!() }
}
pub struct ProtoFlag { pub bits: u64 }
pub struct VhostUserProtocolFeatures;
impl VhostUserProtocolFeatures {
    pub const REPLY_ACK: ProtoFlag = ProtoFlag { bits: 0x8 };            // values proved-by: c01_flag_tables
    pub const SHARED_OBJECT: ProtoFlag = ProtoFlag { bits: 0x4_0000 };
    pub const SHMEM: ProtoFlag = ProtoFlag { bits: 0x20_0000 };
}
impl ProtoFlag { pub fn bits(&self) -> (r: u64) ensures r == self.bits { self.bits } }
pub struct BackendStub3 { pub got: Ghost<Seq<BackendProxyStub>> }
impl BackendStub3 {
    // assumed: ENV-HANDLER the device handler is an ARBITRARY implementation of its trait (any result / return value); the stub only records the call in the ghost trace
    #[verifier::external_body] pub fn set_backend_req_fd(&mut self, b: BackendProxyStub) ensures final(self).got@ == old(self).got@.push(b) { unimplemented!() }
}
pub struct ReqFdHandler { pub backend: BackendStub3, pub acked_protocol_features: u64 }
