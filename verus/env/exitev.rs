// ===== contract environment for the `exitev` unit: construction of a worker and the exit-event path =====
// (event_loop.rs VringEpollHandler::new / send_exit_event, handler.rs VhostUserHandler::send_exit_event)
pub type RawFd = i32;
pub struct IoError { pub errno: i32 }
pub enum VringEpollError { EpollCreateFd(IoError), EpollWait(IoError), RegisterExitEvent(IoError), HandleEventReadKick(IoError), HandleEventBackendHandling(IoError) }
pub type VringEpollResult<T> = core::result::Result<T, VringEpollError>;
pub struct PhantomData;
pub struct EventSet { pub bits: u32 }
impl EventSet {
    // R10 target of the associated constant `EventSet::IN` (vmm-sys-util bitflags over libc::EPOLLIN == 0x001)
    // assumed: A-BITFLAGS EventSet::IN.bits() == EPOLLIN == 1
    #[verifier::external_body]
    pub fn in_set() -> (r: EventSet) ensures r.bits == 1 { unimplemented!() }
}
pub struct EpollEvent { pub events: u32, pub data: u64 }
impl EpollEvent {
    // assumed: A-EPOLL EpollEvent::new(events, data) carries exactly these two words (vmm-sys-util)
    #[verifier::external_body]
    pub fn new(events: EventSet, data: u64) -> (r: EpollEvent) ensures r.events == events.bits, r.data == data { unimplemented!() }
}
#[derive(PartialEq, Eq, Clone, Copy)]
pub enum ControlOperation { Add, Modify, Delete }
// one registration request as the kernel saw it
pub struct CtlCall { pub op: ControlOperation, pub fd: RawFd, pub events: u32, pub data: u64 }
// the epoll instance: `calls` is the ghost log of successful epoll_ctl calls (R8: `&self` -> `&mut self` for the log)
pub struct Epoll { pub calls: Ghost<Seq<CtlCall>> }
impl Epoll {
    // assumed: A-EPOLL Epoll::new creates an empty epoll instance (may fail)
    #[verifier::external_body]
    pub fn new() -> (r: core::result::Result<Epoll, IoError>) ensures r is Ok ==> r->Ok_0.calls@ =~= Seq::empty() { unimplemented!() }
    // assumed: A-EPOLL epoll_ctl applies the request or fails without effect
    #[verifier::external_body]
    pub fn ctl(&mut self, op: ControlOperation, fd: RawFd, ev: EpollEvent) -> (r: core::result::Result<(), IoError>)
        ensures r is Ok ==> final(self).calls@ == old(self).calls@.push(CtlCall { op, fd, events: ev.events, data: ev.data }),
                r is Err ==> final(self).calls@ == old(self).calls@
    { unimplemented!() }
}
// the two halves of a worker's exit event: `ev` is the identity of the underlying eventfd (both halves of one pair share it)
pub struct EventConsumer { pub ev: Ghost<int>, pub fd: RawFd }
impl EventConsumer {
    // assumed: A-OS into_raw_fd hands out the descriptor number of this object
    #[verifier::external_body]
    pub fn into_raw_fd(self) -> (r: RawFd) ensures r == self.fd { unimplemented!() }
}
pub struct EventNotifier { pub ev: Ghost<int> }
// ghost log of notifications: identities of the eventfds written, in order
pub struct ExitLog { pub notified: Ghost<Seq<int>> }
impl EventNotifier {
    // assumed: A-OS EventNotifier::notify attempts one write on its eventfd (may fail); R8: the log parameter records the attempt
    #[verifier::external_body]
    pub fn notify_logged(&self, log: &mut ExitLog) -> (r: core::result::Result<(), IoError>)
        ensures final(log).notified@ == old(log).notified@.push(self.ev@)
    { unimplemented!() }
}
pub struct VringStub { pub id: Ghost<int> }
pub uninterp spec fn exit_pair_of(b: BackendStub, thread: usize) -> Option<(EventConsumer, EventNotifier)>;
pub struct BackendStub { pub nq: usize, pub ident: Ghost<int> }
impl BackendStub {
    pub fn num_queues(&self) -> (r: usize) ensures r == self.nq { self.nq }
    // assumed: ENV-HANDLER the backend hands out ITS exit event for this worker (an arbitrary function of backend and thread id), or none
    #[verifier::external_body]
    pub fn exit_event(&self, thread_index: usize) -> (r: Option<(EventConsumer, EventNotifier)>) ensures r == exit_pair_of(*self, thread_index) { unimplemented!() }
}
pub struct VringEpollHandler {
    pub epoll: Epoll, pub backend: BackendStub, pub vrings: Vec<VringStub>, pub thread_id: usize,
    pub exit_event_fd: Option<EventNotifier>, pub phantom: PhantomData,
}
// R23: Arc<VringEpollHandler<T>> is modelled by the handler itself (shared immutable handle)
pub struct VhostUserHandler { pub handlers: Vec<VringEpollHandler>, pub worker_threads: Vec<JoinHandle> }
// the eventfds that have to be written when every worker is told to exit: one per worker that has an exit event, in worker order
pub open spec fn exit_ids(hs: Seq<VringEpollHandler>, k: int) -> Seq<int> decreases k {
    if k <= 0 { Seq::empty() } else if hs[k - 1].exit_event_fd is Some { exit_ids(hs, k - 1).push(hs[k - 1].exit_event_fd->Some_0.ev@) } else { exit_ids(hs, k - 1) }
}
// ---- teardown (Drop for VhostUserHandler): a worker thread ends only after its exit event was written (event_loop.rs run():
// Ok only after handle_event reported the exit event, unit evloop), so joining a worker whose exit event has NOT been written
// blocks for ever. `join_after_exit` carries that as its precondition.
pub struct JoinHandle { pub worker: Ghost<int> }
pub struct JoinErr;
impl JoinHandle {
    // assumed: A-THREAD JoinHandle::join returns once the thread has ended; the worker thread ends once its exit event is written
    // (proved for the loop itself in unit evloop); R8: the handlers and the log are passed so that the precondition can name them
    #[verifier::external_body]
    pub fn join_after_exit(self, hs: &Vec<VringEpollHandler>, log: &ExitLog) -> (r: core::result::Result<(), JoinErr>)
        requires 0 <= self.worker@ < hs@.len(),
            hs@[self.worker@].exit_event_fd is Some ==> log.notified@.contains(hs@[self.worker@].exit_event_fd->Some_0.ev@),
    { unimplemented!() }
}
pub proof fn lemma_exit_ids_contains(hs: Seq<VringEpollHandler>, k: int, t: int)
    requires 0 <= t < k <= hs.len(), hs[t].exit_event_fd is Some
    ensures exit_ids(hs, k).contains(hs[t].exit_event_fd->Some_0.ev@)
    decreases k
{
    let prev = exit_ids(hs, k - 1);
    if t == k - 1 {
        let s = prev.push(hs[t].exit_event_fd->Some_0.ev@);
        assert(s[s.len() - 1] == hs[t].exit_event_fd->Some_0.ev@);
    } else {
        lemma_exit_ids_contains(hs, k - 1, t);
        let y = hs[t].exit_event_fd->Some_0.ev@;
        let i = choose|i: int| 0 <= i < prev.len() && prev[i] == y;
        if hs[k - 1].exit_event_fd is Some {
            let s = prev.push(hs[k - 1].exit_event_fd->Some_0.ev@);
            assert(s[i] == y);
        }
    }
}
pub proof fn lemma_concat_contains(a: Seq<int>, b: Seq<int>, y: int)
    requires b.contains(y) ensures (a + b).contains(y)
{
    let i = choose|i: int| 0 <= i < b.len() && b[i] == y;
    assert((a + b)[a.len() + i] == y);
}
