// ===== contract environment: common types (hand-written; NOT extracted) =====
// Every `external_body` below is a callee contract.  Each carries a tag:
//   proved-by: <kani harness>   the contract is an L1 obligation discharged on the real code
//   assumed: <A-id>             standing assumption listed in DESIGN.md section 7
// Real bodies that appear between  //@begin-extracted / //@end-extracted  markers are copied
// verbatim from the working tree by vx.py and verified here against these contracts.

pub enum IoError { Os(i32), Other }

pub enum Error {
    InvalidParam,
    InvalidOperation(u8),
    InactiveFeature(VhostUserVirtioFeatures),
    InactiveOperation(VhostUserProtocolFeatures),
    InvalidMessage,
    PartialMessage,
    Disconnected,
    OversizedMsg,
    IncorrectFds,
    SocketConnect(IoError),
    SocketError(IoError),
    SocketBroken(IoError),
    SocketRetry(IoError),
    BackendInternalError,
    FrontendInternalError,
    FeatureMismatch,
    ReqHandlerError(IoError),
    MemFdCreateError,
    FileTruncateError,
    MemFdSealError,
}
pub type Result<T> = core::result::Result<T, Error>;

// assumed: A-STD `u64::from(bool)` is 0 / 1 (core: impl From<bool> for u64)
pub assume_specification [<u64 as core::convert::From<bool>>::from](b: bool) -> (r: u64) ensures r == (if b { 1u64 } else { 0u64 });

impl Error {
    // assumed: ENV Error::should_reconnect (mod.rs: a pure classification of the variant); its value is irrelevant to the contracts here
    #[verifier::external_body]
    pub fn should_reconnect(&self) -> (r: bool) { unimplemented!() }
}

impl IoError {
    // assumed: A-OS (io::Error::from_raw_os_error carries the errno)
    #[verifier::external_body]
    pub fn from_raw_os_error(e: i32) -> (r: IoError) ensures r == IoError::Os(e) { unimplemented!() }
    #[verifier::external_body]
    pub fn raw_os_error(&self) -> (r: Option<i32>)
        ensures r == (match *self { IoError::Os(e) => Some(e), IoError::Other => None }),
            r is Some ==> r->Some_0 != i32::MIN   // assumed: A-ERRNO (an OS error number is never i32::MIN)
    { unimplemented!() }
}

pub const MAX_MSG_SIZE: usize = 4096;            // proved-by: c01_layout_table
pub const MAX_ATTACHED_FD_ENTRIES: usize = 32;   // proved-by: c01_layout_table
pub const VHOST_USER_CONFIG_OFFSET: u32 = 0x100;
pub const VHOST_USER_CONFIG_SIZE: u32 = 0x1000;  // proved-by: c01_layout_table
pub const VHOST_USER_MAX_VRINGS: u64 = 0x8000;

pub type RawFd = i32;

// a received / owned open file; `id` is a ghost identity (the descriptor number at receipt)
pub struct File { pub id: Ghost<int> }
impl File {
    // assumed: A-OS (as_raw_fd lends the descriptor number, ownership unchanged)
    #[verifier::external_body]
    pub fn as_raw_fd(&self) -> (r: RawFd) ensures r as int == self.id@ { unimplemented!() }
    // giving up ownership of a descriptor (the type system stops closing it) is allowed only at the registered transfer sites
    // (set_backend_req_fd / set_gpu_socket / VringState::set_* — ledger-checked by Kani); anywhere else it is a leak (C09)
    #[verifier::external_body]
    pub fn into_raw_fd(self) -> (r: RawFd) requires false ensures r as int == self.id@ { unimplemented!() }
}
// R12 target: one-element descriptor list
#[verifier::external_body]
pub fn fd_slice1(fd: RawFd) -> (r: Option<&'static [RawFd]>) ensures opt_rawfds(r) == seq![fd as int] { unimplemented!() }
pub open spec fn file_ids(v: Seq<File>) -> Seq<int> { v.map(|i: int, f: File| f.id@) }
pub open spec fn opt_file_ids(v: Option<Vec<File>>) -> Seq<int> {
    match v { Some(x) => file_ids(x@), None => Seq::<int>::empty() }
}
pub open spec fn opt_file_id(v: Option<File>) -> Seq<int> {
    match v { Some(f) => seq![f.id@], None => Seq::<int>::empty() }
}
pub open spec fn opt_rawfds(v: Option<&[RawFd]>) -> Seq<int> {
    match v { Some(x) => x@.map(|i: int, f: RawFd| f as int), None => Seq::<int>::empty() }
}

// ---- request-code enums: the trait; the enums themselves are GENERATED from the working tree (R4)
pub trait Req: Sized + Copy {
    spec fn spec_try_from(v: u32) -> Option<Self>;
    spec fn code(self) -> u32;
}

// ---- POD bodies: byte image as an uninterpreted injective function (byte images are Kani obligations
//      c01_body_bytes_*, c01_layout_table; injectivity = "decode(encode(x)) == x")
pub trait ByteValued: Sized {
    spec fn bytes(&self) -> Seq<u8>;
    spec fn decode(s: Seq<u8>) -> Self;
    spec fn spec_size() -> nat;
}

// ---- header flags (values proved-by: c01_flag_tables)
pub struct VhostUserHeaderFlag { pub bits: u32 }
impl VhostUserHeaderFlag {
    pub const VERSION: VhostUserHeaderFlag = VhostUserHeaderFlag { bits: 0x3 };
    pub const REPLY: VhostUserHeaderFlag = VhostUserHeaderFlag { bits: 0x4 };
    pub const NEED_REPLY: VhostUserHeaderFlag = VhostUserHeaderFlag { bits: 0x8 };
    pub const ALL_FLAGS: VhostUserHeaderFlag = VhostUserHeaderFlag { bits: 0xc };
    pub fn bits(&self) -> (r: u32) ensures r == self.bits { self.bits }
}

#[derive(Clone, Copy)]
pub struct VhostUserVirtioFeatures { pub bits: u64 }
impl VhostUserVirtioFeatures {
    pub const LOG_ALL: VhostUserVirtioFeatures = VhostUserVirtioFeatures { bits: 0x400_0000 };
    pub const PROTOCOL_FEATURES: VhostUserVirtioFeatures = VhostUserVirtioFeatures { bits: 0x4000_0000 };
    pub fn bits(&self) -> (r: u64) ensures r == self.bits { self.bits }
}

#[derive(Clone, Copy)]
pub struct VhostUserProtocolFeatures { pub bits: u64 }
pub spec const PF_ALL: u64 = 0x3f_ffff;
impl VhostUserProtocolFeatures {
    pub const MQ: VhostUserProtocolFeatures = VhostUserProtocolFeatures { bits: 0x1 };
    pub const LOG_SHMFD: VhostUserProtocolFeatures = VhostUserProtocolFeatures { bits: 0x2 };
    pub const RARP: VhostUserProtocolFeatures = VhostUserProtocolFeatures { bits: 0x4 };
    pub const REPLY_ACK: VhostUserProtocolFeatures = VhostUserProtocolFeatures { bits: 0x8 };
    pub const MTU: VhostUserProtocolFeatures = VhostUserProtocolFeatures { bits: 0x10 };
    pub const BACKEND_REQ: VhostUserProtocolFeatures = VhostUserProtocolFeatures { bits: 0x20 };
    pub const CROSS_ENDIAN: VhostUserProtocolFeatures = VhostUserProtocolFeatures { bits: 0x40 };
    pub const CRYPTO_SESSION: VhostUserProtocolFeatures = VhostUserProtocolFeatures { bits: 0x80 };
    pub const PAGEFAULT: VhostUserProtocolFeatures = VhostUserProtocolFeatures { bits: 0x100 };
    pub const CONFIG: VhostUserProtocolFeatures = VhostUserProtocolFeatures { bits: 0x200 };
    pub const BACKEND_SEND_FD: VhostUserProtocolFeatures = VhostUserProtocolFeatures { bits: 0x400 };
    pub const HOST_NOTIFIER: VhostUserProtocolFeatures = VhostUserProtocolFeatures { bits: 0x800 };
    pub const INFLIGHT_SHMFD: VhostUserProtocolFeatures = VhostUserProtocolFeatures { bits: 0x1000 };
    pub const RESET_DEVICE: VhostUserProtocolFeatures = VhostUserProtocolFeatures { bits: 0x2000 };
    pub const INBAND_NOTIFICATIONS: VhostUserProtocolFeatures = VhostUserProtocolFeatures { bits: 0x4000 };
    pub const CONFIGURE_MEM_SLOTS: VhostUserProtocolFeatures = VhostUserProtocolFeatures { bits: 0x8000 };
    pub const STATUS: VhostUserProtocolFeatures = VhostUserProtocolFeatures { bits: 0x1_0000 };
    pub const XEN_MMAP: VhostUserProtocolFeatures = VhostUserProtocolFeatures { bits: 0x2_0000 };
    pub const SHARED_OBJECT: VhostUserProtocolFeatures = VhostUserProtocolFeatures { bits: 0x4_0000 };
    pub const DEVICE_STATE: VhostUserProtocolFeatures = VhostUserProtocolFeatures { bits: 0x8_0000 };
    pub const GET_VRING_BASE_INFLIGHT: VhostUserProtocolFeatures = VhostUserProtocolFeatures { bits: 0x10_0000 };
    pub const SHMEM: VhostUserProtocolFeatures = VhostUserProtocolFeatures { bits: 0x20_0000 };
    pub fn bits(&self) -> (r: u64) ensures r == self.bits { self.bits }
    // assumed: A-BITFLAGS
    #[verifier::external_body]
    pub fn from_bits_truncate(b: u64) -> (r: VhostUserProtocolFeatures) ensures r.bits == b & PF_ALL { unimplemented!() }
    #[verifier::external_body]
    pub fn contains(&self, o: VhostUserProtocolFeatures) -> (r: bool) ensures r == (self.bits & o.bits == o.bits) { unimplemented!() }
}
impl vstd::std_specs::ops::BitOrSpecImpl for VhostUserProtocolFeatures {
    open spec fn obeys_bitor_spec() -> bool { true }
    open spec fn bitor_req(self, rhs: Self) -> bool { true }
    open spec fn bitor_spec(self, rhs: Self) -> Self { VhostUserProtocolFeatures { bits: self.bits | rhs.bits } }
}
impl core::ops::BitOr for VhostUserProtocolFeatures {
    type Output = VhostUserProtocolFeatures;
    fn bitor(self, rhs: Self) -> (r: Self) { VhostUserProtocolFeatures { bits: self.bits | rhs.bits } }
}

#[derive(Clone, Copy)]
pub struct VhostUserVringAddrFlags { pub bits: u32 }
impl VhostUserVringAddrFlags {
    pub const VHOST_VRING_F_LOG: VhostUserVringAddrFlags = VhostUserVringAddrFlags { bits: 0x1 };
    pub fn bits(&self) -> (r: u32) ensures r == self.bits { self.bits }
    // assumed: A-BITFLAGS (all() == union of the defined bits; value proved-by: c01_flag_tables)
    #[verifier::external_body]
    pub fn all() -> (r: VhostUserVringAddrFlags) ensures r.bits == 1 { unimplemented!() }
    #[verifier::external_body]
    pub fn from_bits(b: u32) -> (r: Option<VhostUserVringAddrFlags>)
        ensures (b & !1u32 == 0) ==> r == Some(VhostUserVringAddrFlags { bits: b }), (b & !1u32 != 0) ==> r is None
    { unimplemented!() }
}

#[derive(Clone, Copy)]
pub struct VhostUserConfigFlags { pub bits: u32 }
impl VhostUserConfigFlags {
    pub const WRITABLE: VhostUserConfigFlags = VhostUserConfigFlags { bits: 0x1 };
    pub const LIVE_MIGRATION: VhostUserConfigFlags = VhostUserConfigFlags { bits: 0x2 };
    pub fn bits(&self) -> (r: u32) ensures r == self.bits { self.bits }
    // assumed: A-BITFLAGS (value proved-by: c01_flag_tables)
    #[verifier::external_body]
    pub fn all() -> (r: VhostUserConfigFlags) ensures r.bits == 3 { unimplemented!() }
    // assumed: A-BITFLAGS (value proved-by: c01_flag_tables)
    #[verifier::external_body]
    pub fn from_bits(b: u32) -> (r: Option<VhostUserConfigFlags>)
        ensures (b & !3u32 == 0) ==> r == Some(VhostUserConfigFlags { bits: b }), (b & !3u32 != 0) ==> r is None
    { unimplemented!() }
}

#[derive(Clone, Copy)]
pub struct VhostUserMMapFlags { pub bits: u64 }
impl VhostUserMMapFlags {
    pub const WRITABLE: VhostUserMMapFlags = VhostUserMMapFlags { bits: 0x1 };
    pub fn bits(&self) -> (r: u64) ensures r == self.bits { self.bits }
    // assumed: A-BITFLAGS (value proved-by: c01_flag_tables)
    #[verifier::external_body]
    pub fn from_bits(b: u64) -> (r: Option<VhostUserMMapFlags>)
        ensures (b & !1u64 == 0) ==> r == Some(VhostUserMMapFlags { bits: b }), (b & !1u64 != 0) ==> r is None
    { unimplemented!() }
}

// ---- message header (fields private in the real code; accessor contracts proved-by: c01_hdr_accessors,
//      c01_hdr_new_frontend/backend, c06_is_reply_for_*, c20_hdr_valid_*)
#[derive(Clone, Copy)]
pub struct VhostUserMsgHeader<R: Req> { pub request: u32, pub flags: u32, pub size: u32, pub _r: core::marker::PhantomData<R> }

pub open spec fn hdr_valid_spec<R: Req>(h: VhostUserMsgHeader<R>) -> bool {
    R::spec_try_from(h.request) is Some && h.size <= 4096 && (h.flags & 3) == 1 && (h.flags & !0xfu32) == 0
}
pub proof fn lemma_flag_consts()
    ensures 1u32 & 3 == 1, 9u32 & 3 == 1, 5u32 & 3 == 1, 1u32 & 4 == 0, 9u32 & 4 == 0, 5u32 & 4 == 4, 1u32 & 8 == 0, 9u32 & 8 == 8, 5u32 & 8 == 0,
        1u32 & !0xfu32 == 0, 9u32 & !0xfu32 == 0, 5u32 & !0xfu32 == 0
{
    assert(1u32 & 3 == 1 && 9u32 & 3 == 1 && 5u32 & 3 == 1 && 1u32 & 4 == 0 && 9u32 & 4 == 0 && 5u32 & 4 == 4 && 1u32 & 8 == 0 && 9u32 & 8 == 8 && 5u32 & 8 == 0
        && 1u32 & !0xfu32 == 0 && 9u32 & !0xfu32 == 0 && 5u32 & !0xfu32 == 0) by (bit_vector);
}
pub open spec fn is_reply_for_spec<R: Req>(h: VhostUserMsgHeader<R>, req: VhostUserMsgHeader<R>) -> bool {
    R::spec_try_from(h.request) is Some && h.request == req.request && (h.flags & 4) != 0 && (req.flags & 4) == 0
}
impl<R: Req> VhostUserMsgHeader<R> {
    // proved-by: c01_hdr_new_frontend / c01_hdr_accessors / c01_hdr_valid_* (kani, message.rs: header constructor, accessors and validity on the real struct, all bit patterns)
    #[verifier::external_body]
    pub fn new(request: R, flags: u32, size: u32) -> (r: Self)
        ensures r.request == request.code(), r.flags == (flags & 0xc) | 1, r.size == size,
            flags == 0 ==> r.flags == 1, flags == 4 ==> r.flags == 5, flags == 8 ==> r.flags == 9, flags == 0xc ==> r.flags == 0xd,
    { unimplemented!() }
    // proved-by: c01_hdr_new_frontend / c01_hdr_accessors / c01_hdr_valid_* (kani, message.rs: header constructor, accessors and validity on the real struct, all bit patterns)
    #[verifier::external_body]
    pub fn get_code(&self) -> (r: Result<R>)
        ensures match R::spec_try_from(self.request) {
            Some(c) => r == Ok::<R, Error>(c) && c.code() == self.request,
            None => r == Err::<R, Error>(Error::InvalidMessage) }
    { unimplemented!() }
    // proved-by: c01_hdr_new_frontend / c01_hdr_accessors / c01_hdr_valid_* (kani, message.rs: header constructor, accessors and validity on the real struct, all bit patterns)
    #[verifier::external_body]
    pub fn get_version(&self) -> (r: u32) ensures r == self.flags & 3 { unimplemented!() }
    // proved-by: c01_hdr_new_frontend / c01_hdr_accessors / c01_hdr_valid_* (kani, message.rs: header constructor, accessors and validity on the real struct, all bit patterns)
    #[verifier::external_body]
    pub fn is_reply(&self) -> (r: bool) ensures r == (self.flags & 4 != 0) { unimplemented!() }
    // proved-by: c01_hdr_new_frontend / c01_hdr_accessors / c01_hdr_valid_* (kani, message.rs: header constructor, accessors and validity on the real struct, all bit patterns)
    #[verifier::external_body]
    pub fn set_reply(&mut self, is_reply: bool)
        ensures final(self).request == old(self).request, final(self).size == old(self).size,
            final(self).flags == (if is_reply { old(self).flags | 4 } else { old(self).flags & !4u32 })
    { unimplemented!() }
    // proved-by: c01_hdr_new_frontend / c01_hdr_accessors / c01_hdr_valid_* (kani, message.rs: header constructor, accessors and validity on the real struct, all bit patterns)
    #[verifier::external_body]
    pub fn is_need_reply(&self) -> (r: bool) ensures r == (self.flags & 8 != 0) { unimplemented!() }
    // proved-by: c01_hdr_new_frontend / c01_hdr_accessors / c01_hdr_valid_* (kani, message.rs: header constructor, accessors and validity on the real struct, all bit patterns)
    #[verifier::external_body]
    pub fn set_need_reply(&mut self, need_reply: bool)
        ensures final(self).request == old(self).request, final(self).size == old(self).size,
            final(self).flags == (if need_reply { old(self).flags | 8 } else { old(self).flags & !8u32 }),
            old(self).flags == 1 ==> final(self).flags == (if need_reply { 9u32 } else { 1u32 })   // proved-by: c01_hdr_accessors
    { unimplemented!() }
    #[verifier::external_body]
    pub fn is_reply_for(&self, req: &VhostUserMsgHeader<R>) -> (r: bool) ensures r == is_reply_for_spec(*self, *req) { unimplemented!() }
    #[verifier::external_body]
    pub fn get_size(&self) -> (r: u32) ensures r == self.size { unimplemented!() }
    // proved-by: c01_hdr_new_frontend / c01_hdr_accessors / c01_hdr_valid_* (kani, message.rs: header constructor, accessors and validity on the real struct, all bit patterns)
    #[verifier::external_body]
    pub fn set_size(&mut self, size: u32)
        ensures final(self).request == old(self).request, final(self).flags == old(self).flags, final(self).size == size
    { unimplemented!() }
    // proved-by: c01_hdr_new_frontend / c01_hdr_accessors / c01_hdr_valid_* (kani, message.rs: header constructor, accessors and validity on the real struct, all bit patterns)
    #[verifier::external_body]
    pub fn is_valid(&self) -> (r: bool) ensures r == hdr_valid_spec(*self) { unimplemented!() }
}

#[derive(Clone, Copy)]
pub struct VringConfigData { pub queue_max_size: u16, pub queue_size: u16, pub flags: u32, pub desc_table_addr: u64,
    pub used_ring_addr: u64, pub avail_ring_addr: u64, pub log_addr: Option<u64> }

// ---- message bodies (field names as in message.rs; layouts proved-by: c01_layout_table)
#[derive(Clone, Copy)] pub struct VhostUserEmpty;
#[derive(Clone, Copy)] pub struct VhostUserU64 { pub value: u64 }
#[derive(Clone, Copy)] pub struct VhostUserMemory { pub num_regions: u32, pub padding1: u32 }
#[derive(Clone, Copy)] pub struct VhostUserMemoryRegion { pub guest_phys_addr: u64, pub memory_size: u64, pub user_addr: u64, pub mmap_offset: u64 }
#[derive(Clone, Copy)] pub struct VhostUserSingleMemoryRegion { pub padding: u64, pub region: VhostUserMemoryRegion }
#[derive(Clone, Copy)] pub struct VhostUserShMemConfig { pub nregions: u32, pub padding: u32, pub memory_sizes: [u64; 256] }
#[derive(Clone, Copy)] pub struct VhostUserVringState { pub index: u32, pub num: u32 }
#[derive(Clone, Copy)] pub struct VhostUserVringAddr { pub index: u32, pub flags: u32, pub descriptor: u64, pub used: u64, pub available: u64, pub log: u64 }
#[derive(Clone, Copy)] pub struct VhostUserConfig { pub offset: u32, pub size: u32, pub flags: u32 }
#[derive(Clone, Copy)] pub struct VhostUserInflight { pub mmap_size: u64, pub mmap_offset: u64, pub num_queues: u16, pub queue_size: u16 }
#[derive(Clone, Copy)] pub struct VhostUserLog { pub mmap_size: u64, pub mmap_offset: u64 }
#[derive(Clone, Copy)] pub struct Uuid { pub b: [u8; 16] }
#[derive(Clone, Copy)] pub struct VhostUserSharedMsg { pub uuid: Uuid }
#[derive(Clone, Copy)] pub struct VhostUserTransferDeviceState { pub direction: u32, pub phase: u32 }
#[derive(Clone, Copy)] pub struct VhostUserMMap { pub shmid: u8, pub padding: [u8; 7], pub fd_offset: u64, pub shm_offset: u64, pub len: u64, pub flags: u64 }

pub open spec fn uuid_nil(u: Uuid) -> bool { forall|i: int| 0 <= i < 16 ==> u.b[i] == 0 }
pub open spec fn uuid_max(u: Uuid) -> bool { forall|i: int| 0 <= i < 16 ==> u.b[i] == 0xff }
impl Uuid {
    // assumed: A-BITFLAGS/uuid crate (also run on the real dependency by kani c20_shared_msg_valid)
    #[verifier::external_body] pub fn is_nil(&self) -> (r: bool) ensures r == uuid_nil(*self) { unimplemented!() }
    #[verifier::external_body] pub fn is_max(&self) -> (r: bool) ensures r == uuid_max(*self) { unimplemented!() }
}

// protocol validity rules (written from the property text; the Kani oracles in kani/vhost/message.rs are the
// same rules in a different idiom, and the REAL is_valid bodies are verified against these below)
pub open spec fn region_valid(r: VhostUserMemoryRegion) -> bool {
    r.memory_size != 0 && r.guest_phys_addr + r.memory_size <= u64::MAX && r.user_addr + r.memory_size <= u64::MAX
        && r.mmap_offset + r.memory_size <= u64::MAX
}
pub open spec fn memory_valid(m: VhostUserMemory) -> bool { m.padding1 == 0 && 1 <= m.num_regions <= 32 }
pub open spec fn vring_addr_valid(m: VhostUserVringAddr) -> bool {
    m.flags & !1u32 == 0 && m.descriptor & 0xf == 0 && m.available & 0x1 == 0 && m.used & 0x3 == 0
}
pub open spec fn config_valid(m: VhostUserConfig) -> bool {
    m.size >= 1 && m.offset + m.size <= 0x1000 && m.flags & !3u32 == 0
}
pub open spec fn inflight_valid(m: VhostUserInflight) -> bool { m.num_queues != 0 && m.queue_size != 0 }
pub open spec fn log_valid(m: VhostUserLog) -> bool { m.mmap_size != 0 && m.mmap_offset + m.mmap_size <= u64::MAX }
pub open spec fn shared_valid(m: VhostUserSharedMsg) -> bool { !uuid_nil(m.uuid) && !uuid_max(m.uuid) }
pub open spec fn transfer_valid(m: VhostUserTransferDeviceState) -> bool { m.direction <= 1 && m.phase == 0 }
pub open spec fn mmap_valid(m: VhostUserMMap) -> bool {
    m.len != 0 && m.fd_offset + m.len <= u64::MAX && m.shm_offset + m.len <= u64::MAX && m.flags & !1u64 == 0
}

// validator trait: `valid_spec` is the protocol rule; `is_valid` is the real (extracted) body
pub trait VhostUserMsgValidator: ByteValued {
    spec fn valid_spec(&self) -> bool;
    fn is_valid(&self) -> (r: bool) ensures r == self.valid_spec();
}

// R19 target of `std::array::from_fn(|i| *S.get(i).unwrap_or(&D))` (VhostUserShMemConfig::new): element i is S[i] where the slice has one, D otherwise
#[verifier::external_body]
pub fn array256_from_slice_or(s: &[u64], d: u64) -> (r: [u64; 256])
    ensures forall|i: int| 0 <= i < 256 ==> r@[i] == (if i < s@.len() { s@[i] } else { d })
{ unimplemented!() }
