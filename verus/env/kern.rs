// ===== contract environment for the `kern` unit: in-kernel vhost / vDPA backends (C19) =====
// The ioctl layer (vmm_sys_util::ioctl::ioctl_with_*) and write(2) are the assumed boundary (A-OS); the receiver is `&self` in
// the real code (the effect is on the kernel's device) and becomes `&mut self` (R8) so that the ghost log of what was issued can change.
// Request numbers, struct sizes and field offsets of the bindings == <linux/vhost.h>: Kani obligations on the real bindings
// (c19_binding_request_numbers, c19_binding_layouts).
pub enum IoError { Os(i32), Other, InvalidData }
// ---------- vhost_kern: ioctl_result / io_result
pub enum KError { IoctlError(IoError), IOError(IoError), InvalidGuestMemory }
pub type KResult<T> = core::result::Result<T, KError>;
// assumed: A-OS errno of the failed call
#[verifier::external_body]
pub fn last_os_error() -> IoError { unimplemented!() }


// ---------- vhost_kern/mod.rs: send_iotlb_msg (C19). The bindgen unions have ONE member used here (`iotlb`): modelled as structs.
// Field offsets / sizes / constants of these bindings == <linux/vhost.h>: proved-by: c19_binding_layouts (Kani, real bindings)
#[allow(non_camel_case_types)] pub type ssize_t = isize;
#[allow(non_camel_case_types)] #[derive(Clone, Copy)]
pub struct vhost_iotlb_msg { pub iova: u64, pub size: u64, pub uaddr: u64, pub perm: u8, pub type_: u8 }
#[derive(Clone, Copy)] pub struct IotlbUnion { pub iotlb: vhost_iotlb_msg }
#[allow(non_camel_case_types)] #[derive(Clone, Copy)]
pub struct vhost_msg { pub type_: i32, pub __bindgen_anon_1: IotlbUnion }
#[allow(non_camel_case_types)] #[derive(Clone, Copy)]
pub struct vhost_msg_v2 { pub type_: u32, pub asid: u32, pub __bindgen_anon_1: IotlbUnion }
pub open spec fn zero_iotlb() -> vhost_iotlb_msg { vhost_iotlb_msg { iova: 0, size: 0, uaddr: 0, perm: 0, type_: 0 } }
// R25 targets of `T { type_: X, ..Default::default() }` (bindgen derives Default = all-zero)
pub fn vhost_msg_with_type(t: i32) -> (r: vhost_msg) ensures r.type_ == t, r.__bindgen_anon_1.iotlb == zero_iotlb()
{ vhost_msg { type_: t, __bindgen_anon_1: IotlbUnion { iotlb: vhost_iotlb_msg { iova: 0, size: 0, uaddr: 0, perm: 0, type_: 0 } } } }
pub fn vhost_msg_v2_with_type(t: u32) -> (r: vhost_msg_v2) ensures r.type_ == t, r.asid == 0, r.__bindgen_anon_1.iotlb == zero_iotlb()
{ vhost_msg_v2 { type_: t, asid: 0, __bindgen_anon_1: IotlbUnion { iotlb: vhost_iotlb_msg { iova: 0, size: 0, uaddr: 0, perm: 0, type_: 0 } } } }
#[derive(Clone, Copy)] pub enum VhostAccess { No, ReadOnly, WriteOnly, ReadWrite }
#[derive(Clone, Copy)] pub enum VhostIotlbType { Empty, Miss, Update, Invalidate, AccessFail, BatchBegin, BatchEnd }
pub open spec fn access_code(a: VhostAccess) -> u8 { match a { VhostAccess::No => 0, VhostAccess::ReadOnly => 1, VhostAccess::WriteOnly => 2, VhostAccess::ReadWrite => 3 } }
pub open spec fn iotlb_type_code(t: VhostIotlbType) -> u8 { match t { VhostIotlbType::Empty => 0, VhostIotlbType::Miss => 1, VhostIotlbType::Update => 2,
    VhostIotlbType::Invalidate => 3, VhostIotlbType::AccessFail => 4, VhostIotlbType::BatchBegin => 5, VhostIotlbType::BatchEnd => 6 } }
// R25 targets of `msg.perm as u8` / `msg.msg_type as u8` (discriminants == UAPI values: proved-by: c19_binding_layouts)
pub fn access_as_u8(a: VhostAccess) -> (r: u8) ensures r == access_code(a)
{ match a { VhostAccess::No => 0, VhostAccess::ReadOnly => 1, VhostAccess::WriteOnly => 2, VhostAccess::ReadWrite => 3 } }
pub fn iotlb_type_as_u8(t: VhostIotlbType) -> (r: u8) ensures r == iotlb_type_code(t)
{ match t { VhostIotlbType::Empty => 0, VhostIotlbType::Miss => 1, VhostIotlbType::Update => 2, VhostIotlbType::Invalidate => 3,
    VhostIotlbType::AccessFail => 4, VhostIotlbType::BatchBegin => 5, VhostIotlbType::BatchEnd => 6 } }
pub struct VhostIotlbMsg { pub iova: u64, pub size: u64, pub userspace_addr: u64, pub perm: VhostAccess, pub msg_type: VhostIotlbType }
// what was handed to write(2): which struct, its field values, the byte count
pub enum Written { V1(vhost_msg, usize), V2(vhost_msg_v2, usize) }
// R20 targets of `unsafe { write(fd, &m as *const T as *const c_void, mem::size_of::<T>()) }`: one write(2) of the object's bytes.
// assumed: A-OS. The receiver is `&self` in the real code (the effect is on the kernel's device); R8 makes it `&mut self` so
// that the ghost log of what was written can change
impl KernDev {
    #[verifier::external_body]
    pub fn write_v1(&mut self, fd: i32, m: &vhost_msg, n: usize) -> (r: ssize_t)
        requires fd == old(self).fd ensures final(self).written@ == old(self).written@.push(Written::V1(*m, n)), final(self).fd == old(self).fd, final(self).acked == old(self).acked, final(self).ioctls@ == old(self).ioctls@
    { unimplemented!() }
    // assumed: A-OS (as write_v1)
    #[verifier::external_body]
    pub fn write_v2(&mut self, fd: i32, m: &vhost_msg_v2, n: usize) -> (r: ssize_t)
        requires fd == old(self).fd ensures final(self).written@ == old(self).written@.push(Written::V2(*m, n)), final(self).fd == old(self).fd, final(self).acked == old(self).acked, final(self).ioctls@ == old(self).ioctls@
    { unimplemented!() }
}
pub fn size_of_vhost_msg() -> (r: usize) ensures r == 72 { 72 }       // proved-by: c19_binding_layouts (SZ_vhost_msg)
pub fn size_of_vhost_msg_v2() -> (r: usize) ensures r == 72 { 72 }    // proved-by: c19_binding_layouts (SZ_vhost_msg_v2)
pub open spec fn iotlb_of(m: VhostIotlbMsg) -> vhost_iotlb_msg {
    vhost_iotlb_msg { iova: m.iova, size: m.size, uaddr: m.userspace_addr, perm: access_code(m.perm), type_: iotlb_type_code(m.msg_type) }
}


// ---------- ioctl log
pub enum Req { SetMemTable, VdpaGetConfig, VdpaSetConfig }
#[allow(non_snake_case)] pub fn VHOST_SET_MEM_TABLE() -> (r: Req) ensures r == Req::SetMemTable { Req::SetMemTable }       // proved-by: c19_binding_request_numbers
#[allow(non_snake_case)] pub fn VHOST_VDPA_GET_CONFIG() -> (r: Req) ensures r == Req::VdpaGetConfig { Req::VdpaGetConfig } // proved-by: c19_binding_request_numbers
#[allow(non_snake_case)] pub fn VHOST_VDPA_SET_CONFIG() -> (r: Req) ensures r == Req::VdpaSetConfig { Req::VdpaSetConfig } // proved-by: c19_binding_request_numbers
pub enum IoctlRec {
    MemTable(Req, int, Seq<vhost_memory_region>),   // request, nregions field, region array
    Config(Req, u32, int, Seq<u8>),                 // request, off, len, buf as handed to the kernel
}
// ---------- set_mem_table
pub const VHOST_MAX_MEMORY_REGIONS: usize = 255;    // R4: value re-checked against the working tree by the unit builder
pub struct VhostUserMemoryRegionInfo { pub guest_phys_addr: u64, pub memory_size: u64, pub userspace_addr: u64, pub mmap_offset: u64, pub mmap_handle: i32 }
#[allow(non_camel_case_types)] #[derive(Clone, Copy)]
pub struct vhost_memory_region { pub guest_phys_addr: u64, pub memory_size: u64, pub userspace_addr: u64, pub flags_padding: u64 }
pub open spec fn region_of(r: VhostUserMemoryRegionInfo) -> vhost_memory_region { vhost_memory_region { guest_phys_addr: r.guest_phys_addr, memory_size: r.memory_size, userspace_addr: r.userspace_addr, flags_padding: 0 } }
pub open spec fn zero_region() -> vhost_memory_region { vhost_memory_region { guest_phys_addr: 0, memory_size: 0, userspace_addr: 0, flags_padding: 0 } }
// VhostMemory (vhost_binding.rs): header {nregions} followed by the region array in one allocation.
// assumed: A-VHOSTMEM for every table size; cross-checked on the real type for 1, 2 and 3 entries by the bounded Kani harnesses
// c19_vhost_memory_layout_{1,2,3}_bounded (nregions and region i at the UAPI byte offsets, all other entries zero)
pub struct VhostMemory { pub n: Ghost<int>, pub regions: Ghost<Seq<vhost_memory_region>> }
impl VhostMemory {
    // assumed: A-VHOSTMEM
    #[verifier::external_body]
    pub fn new(entries: u16) -> (r: VhostMemory) ensures r.n@ == entries, r.regions@ == Seq::new(entries as nat, |i: int| zero_region()) { unimplemented!() }
    // assumed: A-VHOSTMEM
    #[verifier::external_body]
    pub fn set_region(&mut self, index: u32, region: &vhost_memory_region) -> (r: KResult<()>)
        ensures final(self).n@ == old(self).n@, (r is Ok) == (index < old(self).n@),
            r is Ok ==> final(self).regions@ == old(self).regions@.update(index as int, *region),
            r is Err ==> final(self).regions@ == old(self).regions@
    { unimplemented!() }
}
// ---------- vDPA config space: FamStructWrapper<vhost_vdpa_config> (vmm-sys-util, dependency; assumed: A-FAM: new(len) allocates
// header {off: 0, len} + len zero bytes or refuses, as_slice / as_mut_slice are the len payload bytes)
pub struct FamErr;
pub struct VhostVdpaConfig { pub off: u32, pub len: Ghost<int>, pub bytes: Ghost<Seq<u8>> }
impl VhostVdpaConfig {
    // assumed: A-FAM
    #[verifier::external_body]
    pub fn new(len: usize) -> (r: core::result::Result<VhostVdpaConfig, FamErr>)
        ensures r is Ok ==> r->Ok_0.off == 0 && r->Ok_0.len@ == len && r->Ok_0.bytes@.len() == len
    { unimplemented!() }
    // R20 target of `unsafe { config.as_mut_fam_struct().off = offset; }`
    pub fn set_off(&mut self, off: u32) ensures final(self).off == off, final(self).len@ == old(self).len@, final(self).bytes@ == old(self).bytes@ { self.off = off; }
    // R19 target of `config.as_mut_slice().copy_from_slice(buffer)` (REQUIRES: copy_from_slice panics on a length mismatch)
    #[verifier::external_body]
    pub fn fill_from(&mut self, src: &[u8])
        requires src@.len() == old(self).len@
        ensures final(self).bytes@ == src@, final(self).off == old(self).off, final(self).len@ == old(self).len@
    { unimplemented!() }
    // R19 target of `buffer.copy_from_slice(config.as_slice())`
    #[verifier::external_body]
    pub fn copy_to(&self, dst: &mut [u8])
        requires old(dst)@.len() == self.len@
        ensures final(dst)@ == self.bytes@
    { unimplemented!() }
}
pub struct KernDev { pub fd: i32, pub acked: u64, pub written: Ghost<Seq<Written>>, pub ioctls: Ghost<Seq<IoctlRec>> }
impl KernDev {
    pub fn get_backend_features_acked(&self) -> (r: u64) ensures r == self.acked { self.acked }
    pub fn as_raw_fd(&self) -> (r: i32) ensures r == self.fd { self.fd }
    // R20 targets of `unsafe { ioctl_with_ptr(self, REQ(), ptr) }` — one ioctl; the kernel may write the object back (GET_CONFIG)
    #[verifier::external_body]
    pub fn ioctl_mem_table(&mut self, req: Req, m: &VhostMemory) -> (r: i32)
        ensures final(self).ioctls@ == old(self).ioctls@.push(IoctlRec::MemTable(req, m.n@, m.regions@)), final(self).fd == old(self).fd, final(self).acked == old(self).acked, final(self).written@ == old(self).written@
    { unimplemented!() }
    #[verifier::external_body]
    pub fn ioctl_config(&mut self, req: Req, c: &mut VhostVdpaConfig) -> (r: i32)
        ensures final(self).ioctls@ == old(self).ioctls@.push(IoctlRec::Config(req, old(c).off, old(c).len@, old(c).bytes@)),
            final(c).off == old(c).off, final(c).len@ == old(c).len@, final(c).bytes@.len() == old(c).bytes@.len(),
            req == Req::VdpaSetConfig ==> final(c).bytes@ == old(c).bytes@,
            final(self).fd == old(self).fd, final(self).acked == old(self).acked, final(self).written@ == old(self).written@
    { unimplemented!() }
}
