// ===== contract environment for the `evloop` unit: the worker's epoll loop (event_loop.rs run) =====
pub struct EpollEvent { pub events: u32, pub data: u64 }
impl EpollEvent { pub fn data(&self) -> (r: u64) ensures r == self.data { self.data } }
pub struct EventSet { pub bits: u32 }
// assumed: A-BITFLAGS EventSet::from_bits accepts exactly the words made of defined epoll bits (vmm-sys-util; `known` is uninterpreted:
// the proof holds for any set of defined bits)
pub uninterp spec fn known(bits: u32) -> bool;
impl EventSet {
    // assumed: A-BITFLAGS
    #[verifier::external_body]
    pub fn from_bits(b: u32) -> (r: Option<EventSet>) ensures (r is Some) == known(b), r is Some ==> r->Some_0.bits == b { unimplemented!() }
}
#[derive(PartialEq, Eq, Clone, Copy)]
pub enum IoErrorKind { Interrupted, Other }
pub struct IoError { pub k: IoErrorKind }
impl IoError { pub fn kind(&self) -> (r: IoErrorKind) ensures r == self.k { self.k } }
pub enum VringEpollError { EpollCreateFd(IoError), EpollWait(IoError), RegisterExitEvent(IoError), HandleEventReadKick(IoError), HandleEventBackendHandling(IoError) }
pub type VringEpollResult<T> = core::result::Result<T, VringEpollError>;
// R19 target of `vec![EpollEvent::new(EventSet::empty(), 0); EPOLL_EVENTS_LEN]`
#[verifier::external_body]
pub fn events_buffer(n: usize) -> (r: Vec<EpollEvent>) ensures r@.len() == n { unimplemented!() }
// what the loop is expected to hand to handle_event for one batch of n events returned by epoll_wait: every event whose bits are
// known, in order, with the low 16 bits of its data word as the event id
pub open spec fn expected_batch(evs: Seq<EpollEvent>, k: int) -> Seq<(u16, u32)> decreases k {
    if k <= 0 { Seq::empty() } else if known(evs[k - 1].events) { expected_batch(evs, k - 1).push(((evs[k - 1].data & 0xffff) as u16, evs[k - 1].events)) } else { expected_batch(evs, k - 1) }
}
pub open spec fn expected_all(p: Seq<Seq<EpollEvent>>) -> Seq<(u16, u32)> decreases p.len() {
    if p.len() == 0 { Seq::empty() } else { expected_all(p.drop_last()) + expected_batch(p.last(), p.last().len() as int) }
}
// ghost state of the worker: batches returned by epoll_wait, events handed to handle_event (id, bits), whether handle_event has
// reported the exit event
pub struct VringEpollHandler { pub polled: Ghost<Seq<Seq<EpollEvent>>>, pub trace: Ghost<Seq<(u16, u32)>>, pub exit_seen: Ghost<bool> }
impl VringEpollHandler {
    // assumed: A-EPOLL epoll_wait fills events[..n] (n <= capacity) or fails; R8: `&self` -> `&mut self` for the ghost log
    #[verifier::external_body]
    pub fn epoll_wait(&mut self, timeout: i32, events: &mut Vec<EpollEvent>) -> (r: core::result::Result<usize, IoError>)
        ensures final(events)@.len() == old(events)@.len(), final(self).trace@ == old(self).trace@, final(self).exit_seen@ == old(self).exit_seen@,
            match r { Ok(n) => n <= final(events)@.len() && final(self).polled@ == old(self).polled@.push(final(events)@.subrange(0, n as int)),
                      Err(_) => final(self).polled@ == old(self).polled@ }
    { unimplemented!() }
    // proved-by: c11_c17_handle_event_dispatch (kani, real handle_event: Ok(true) exactly for the exit id, backend entered iff read_kick reports enabled)
    #[verifier::external_body]
    pub fn handle_event(&mut self, device_event: u16, evset: EventSet) -> (r: VringEpollResult<bool>)
        ensures final(self).polled@ == old(self).polled@, final(self).trace@ == old(self).trace@.push((device_event, evset.bits)),
            final(self).exit_seen@ == (old(self).exit_seen@ || r == Ok::<bool, VringEpollError>(true))
    { unimplemented!() }
}
pub proof fn lemma_low16(d: u64) ensures (d as u16) == ((d & 0xffff) as u16) { assert((d as u16) == ((d & 0xffff) as u16)) by (bit_vector); }
pub open spec fn self_frame(a: VringEpollHandler, b: VringEpollHandler) -> bool { b.polled@.subrange(0, a.polled@.len() as int) =~= a.polled@ }
