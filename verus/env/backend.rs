// ===== contract environment: backend request server (hand-written; NOT extracted) =====

// ---- one message on the wire, as handed to the socket primitive
pub struct Frame {
    pub request: u32,
    pub flags: u32,
    pub size: u32,
    pub body: Seq<u8>,
    pub payload: Seq<u8>,
    pub fds: Seq<int>,
}

pub open spec fn frame_of<R: Req, T: ByteValued>(hdr: VhostUserMsgHeader<R>, body: T, payload: Seq<u8>, fds: Seq<int>) -> Frame {
    Frame { request: hdr.request, flags: hdr.flags, size: hdr.size, body: body.bytes(), payload: payload, fds: fds }
}

// ---- Endpoint: ghost record of everything the code under verification hands to the socket.
//      `io_failed` becomes true when a send reports an error (then nothing is claimed about the wire).
pub struct Endpoint<R: Req> {
    pub sent: Ghost<Seq<Frame>>,
    pub io_failed: Ghost<bool>,
    pub rx_hdrs: Ghost<nat>,        // number of headers taken from the socket
    pub rx_body: Ghost<Seq<nat>>,   // byte counts requested by body reads, in order
    pub _h: core::marker::PhantomData<R>,
}

impl<R: Req> Endpoint<R> {
    // proved-by: c08_send_message_frame (kani, connection.rs) + assumed: A-OS for the primitive
    #[verifier::external_body]
    pub fn send_message<T: ByteValued>(&mut self, hdr: &VhostUserMsgHeader<R>, body: &T, fds: Option<&[RawFd]>) -> (r: Result<()>)
        ensures
            r is Ok ==> final(self).sent@ == old(self).sent@.push(frame_of(*hdr, *body, Seq::<u8>::empty(), opt_rawfds(fds)))
                && final(self).io_failed@ == old(self).io_failed@,
            r is Err ==> final(self).sent@ == old(self).sent@ && final(self).io_failed@,
            final(self).rx_hdrs@ == old(self).rx_hdrs@, final(self).rx_body@ == old(self).rx_body@,
    { unimplemented!() }

    // proved-by: c08_send_message_with_payload_frame
    #[verifier::external_body]
    pub fn send_message_with_payload<T: ByteValued>(&mut self, hdr: &VhostUserMsgHeader<R>, body: &T, payload: &[u8], fds: Option<&[RawFd]>) -> (r: Result<()>)
        ensures
            r is Ok ==> final(self).sent@ == old(self).sent@.push(frame_of(*hdr, *body, payload@, opt_rawfds(fds)))
                && final(self).io_failed@ == old(self).io_failed@,
            r is Err ==> final(self).sent@ == old(self).sent@ && final(self).io_failed@,
            final(self).rx_hdrs@ == old(self).rx_hdrs@, final(self).rx_body@ == old(self).rx_body@,
    { unimplemented!() }
}

// one-element descriptor list lent from an owned File (R12 target of `Some(&[file.as_raw_fd()])`)
// R12 target: Some(&[fd.as_raw_fd()]) = one-element descriptor list lent from a File
#[verifier::external_body]
pub fn fds1(f: &File) -> (r: Option<&[RawFd]>)
    ensures opt_rawfds(r) == seq![f.id@]
{ unimplemented!() }

// ---- the application's handler: every method appends the call with its arguments to a ghost trace
//      and returns an ARBITRARY result (so arm contracts hold for every handler outcome).
pub enum Call {
    SetOwner, ResetOwner, ResetDevice, GetFeatures, SetFeatures(u64),
    SetMemTable(Seq<VhostUserMemoryRegion>, Seq<int>),
    SetVringNum(u32, u32), SetVringAddr(u32, u32, u64, u64, u64, u64), SetVringBase(u32, u32), GetVringBase(u32),
    SetVringKick(u8, Seq<int>), SetVringCall(u8, Seq<int>), SetVringErr(u8, Seq<int>),
    GetProtocolFeatures, SetProtocolFeatures(u64), GetQueueNum, SetVringEnable(u32, bool),
    GetConfig(u32, u32, u32), SetConfig(u32, Seq<u8>, u32),
    SetBackendReqFd(int), SetGpuSocket(int),
    GetSharedObject(VhostUserSharedMsg), GetInflightFd(VhostUserInflight), SetInflightFd(VhostUserInflight, int),
    GetMaxMemSlots, AddMemRegion(VhostUserSingleMemoryRegion, int), RemoveMemRegion(VhostUserSingleMemoryRegion),
    SetDeviceStateFd(u32, u32, int), CheckDeviceState, GetShmemConfig, SetLogBase(VhostUserLog, int),
}

// what the handler answered (arbitrary, recorded so that reply contracts can speak about it)
pub enum Ret {
    OkUnit, Failed, U64(u64), State(VhostUserVringState), Bytes(Seq<u8>), FileId(int),
    Inflight(VhostUserInflight, int), OptFile(Option<int>), ShMem(VhostUserShMemConfig),
}
pub struct HandlerStub { pub trace: Ghost<Seq<Call>>, pub rets: Ghost<Seq<Ret>> }
pub open spec fn ret_unit(r: Result<()>) -> Ret { if r is Ok { Ret::OkUnit } else { Ret::Failed } }
pub open spec fn ret_u64(r: Result<u64>) -> Ret { match r { Ok(v) => Ret::U64(v), Err(_) => Ret::Failed } }

// backend-request / gpu proxies created from a received descriptor: ghost identity of the socket
pub struct Backend { pub sock_id: Ghost<int> }
pub struct GpuBackend { pub sock_id: Ghost<int> }
pub struct UnixStream { pub id: Ghost<int> }
impl Backend {
    // assumed: ENV constructor of the proxy object handed to the handler (the proxy itself is verified in unit proxy / gpu)
    #[verifier::external_body]
    pub fn from_stream(sock: UnixStream) -> (r: Backend) ensures r.sock_id@ == sock.id@ { unimplemented!() }
}
impl GpuBackend {
    // assumed: ENV constructor of the proxy object handed to the handler (the proxy itself is verified in unit proxy / gpu)
    #[verifier::external_body]
    pub fn from_stream(sock: UnixStream) -> (r: GpuBackend) ensures r.sock_id@ == sock.id@ { unimplemented!() }
}
// R13 target of `unsafe { UnixStream::from_raw_fd(file.into_raw_fd()) }`: ownership of the descriptor moves
// from the File into the stream (fd ledger: proved-by c09_set_backend_req_fd_ledger)
#[verifier::external_body]
pub fn unix_stream_from_file(file: File) -> (r: UnixStream) ensures r.id@ == file.id@ { unimplemented!() }


impl HandlerStub {
    // assumed: ENV-HANDLER the device handler is an ARBITRARY implementation of its trait (any result / return value); the stub only records the call in the ghost trace
    #[verifier::external_body] pub fn set_owner(&mut self) -> (r: Result<()>)
        ensures final(self).trace@ == old(self).trace@.push(Call::SetOwner), final(self).rets@ == old(self).rets@.push(ret_unit(r)) { unimplemented!() }
    // assumed: ENV-HANDLER the device handler is an ARBITRARY implementation of its trait (any result / return value); the stub only records the call in the ghost trace
    #[verifier::external_body] pub fn reset_owner(&mut self) -> (r: Result<()>)
        ensures final(self).trace@ == old(self).trace@.push(Call::ResetOwner), final(self).rets@ == old(self).rets@.push(ret_unit(r)) { unimplemented!() }
    // assumed: ENV-HANDLER the device handler is an ARBITRARY implementation of its trait (any result / return value); the stub only records the call in the ghost trace
    #[verifier::external_body] pub fn reset_device(&mut self) -> (r: Result<()>)
        ensures final(self).trace@ == old(self).trace@.push(Call::ResetDevice), final(self).rets@ == old(self).rets@.push(ret_unit(r)) { unimplemented!() }
    // assumed: ENV-HANDLER the device handler is an ARBITRARY implementation of its trait (any result / return value); the stub only records the call in the ghost trace
    #[verifier::external_body] pub fn get_features(&mut self) -> (r: Result<u64>)
        ensures final(self).trace@ == old(self).trace@.push(Call::GetFeatures), final(self).rets@ == old(self).rets@.push(ret_u64(r)) { unimplemented!() }
    // assumed: ENV-HANDLER the device handler is an ARBITRARY implementation of its trait (any result / return value); the stub only records the call in the ghost trace
    #[verifier::external_body] pub fn set_features(&mut self, features: u64) -> (r: Result<()>)
        ensures final(self).trace@ == old(self).trace@.push(Call::SetFeatures(features)), final(self).rets@ == old(self).rets@.push(ret_unit(r)) { unimplemented!() }
    // assumed: ENV-HANDLER the device handler is an ARBITRARY implementation of its trait (any result / return value); the stub only records the call in the ghost trace
    #[verifier::external_body] pub fn set_mem_table(&mut self, ctx: &[VhostUserMemoryRegion], files: Vec<File>) -> (r: Result<()>)
        ensures final(self).trace@ == old(self).trace@.push(Call::SetMemTable(ctx@, file_ids(files@))), final(self).rets@ == old(self).rets@.push(ret_unit(r)) { unimplemented!() }
    // assumed: ENV-HANDLER the device handler is an ARBITRARY implementation of its trait (any result / return value); the stub only records the call in the ghost trace
    #[verifier::external_body] pub fn set_vring_num(&mut self, index: u32, num: u32) -> (r: Result<()>)
        ensures final(self).trace@ == old(self).trace@.push(Call::SetVringNum(index, num)), final(self).rets@ == old(self).rets@.push(ret_unit(r)) { unimplemented!() }
    // assumed: ENV-HANDLER the device handler is an ARBITRARY implementation of its trait (any result / return value); the stub only records the call in the ghost trace
    #[verifier::external_body] pub fn set_vring_addr(&mut self, index: u32, flags: VhostUserVringAddrFlags, descriptor: u64, used: u64, available: u64, log: u64) -> (r: Result<()>)
        ensures final(self).trace@ == old(self).trace@.push(Call::SetVringAddr(index, flags.bits, descriptor, used, available, log)), final(self).rets@ == old(self).rets@.push(ret_unit(r)) { unimplemented!() }
    // assumed: ENV-HANDLER the device handler is an ARBITRARY implementation of its trait (any result / return value); the stub only records the call in the ghost trace
    #[verifier::external_body] pub fn set_vring_base(&mut self, index: u32, base: u32) -> (r: Result<()>)
        ensures final(self).trace@ == old(self).trace@.push(Call::SetVringBase(index, base)), final(self).rets@ == old(self).rets@.push(ret_unit(r)) { unimplemented!() }
    // assumed: ENV-HANDLER the device handler is an ARBITRARY implementation of its trait (any result / return value); the stub only records the call in the ghost trace
    #[verifier::external_body] pub fn get_vring_base(&mut self, index: u32) -> (r: Result<VhostUserVringState>)
        ensures final(self).trace@ == old(self).trace@.push(Call::GetVringBase(index)), final(self).rets@ == old(self).rets@.push(match r { Ok(v) => Ret::State(v), Err(_) => Ret::Failed }) { unimplemented!() }
    // assumed: ENV-HANDLER the device handler is an ARBITRARY implementation of its trait (any result / return value); the stub only records the call in the ghost trace
    #[verifier::external_body] pub fn set_vring_kick(&mut self, index: u8, fd: Option<File>) -> (r: Result<()>)
        ensures final(self).trace@ == old(self).trace@.push(Call::SetVringKick(index, opt_file_id(fd))), final(self).rets@ == old(self).rets@.push(ret_unit(r)) { unimplemented!() }
    // assumed: ENV-HANDLER the device handler is an ARBITRARY implementation of its trait (any result / return value); the stub only records the call in the ghost trace
    #[verifier::external_body] pub fn set_vring_call(&mut self, index: u8, fd: Option<File>) -> (r: Result<()>)
        ensures final(self).trace@ == old(self).trace@.push(Call::SetVringCall(index, opt_file_id(fd))), final(self).rets@ == old(self).rets@.push(ret_unit(r)) { unimplemented!() }
    // assumed: ENV-HANDLER the device handler is an ARBITRARY implementation of its trait (any result / return value); the stub only records the call in the ghost trace
    #[verifier::external_body] pub fn set_vring_err(&mut self, index: u8, fd: Option<File>) -> (r: Result<()>)
        ensures final(self).trace@ == old(self).trace@.push(Call::SetVringErr(index, opt_file_id(fd))), final(self).rets@ == old(self).rets@.push(ret_unit(r)) { unimplemented!() }
    // assumed: ENV-HANDLER the device handler is an ARBITRARY implementation of its trait (any result / return value); the stub only records the call in the ghost trace
    #[verifier::external_body] pub fn get_protocol_features(&mut self) -> (r: Result<VhostUserProtocolFeatures>)
        ensures final(self).trace@ == old(self).trace@.push(Call::GetProtocolFeatures), final(self).rets@ == old(self).rets@.push(match r { Ok(v) => Ret::U64(v.bits), Err(_) => Ret::Failed }) { unimplemented!() }
    // assumed: ENV-HANDLER the device handler is an ARBITRARY implementation of its trait (any result / return value); the stub only records the call in the ghost trace
    #[verifier::external_body] pub fn set_protocol_features(&mut self, features: u64) -> (r: Result<()>)
        ensures final(self).trace@ == old(self).trace@.push(Call::SetProtocolFeatures(features)), final(self).rets@ == old(self).rets@.push(ret_unit(r)) { unimplemented!() }
    // assumed: ENV-HANDLER the device handler is an ARBITRARY implementation of its trait (any result / return value); the stub only records the call in the ghost trace
    #[verifier::external_body] pub fn get_queue_num(&mut self) -> (r: Result<u64>)
        ensures final(self).trace@ == old(self).trace@.push(Call::GetQueueNum), final(self).rets@ == old(self).rets@.push(ret_u64(r)) { unimplemented!() }
    // assumed: ENV-HANDLER the device handler is an ARBITRARY implementation of its trait (any result / return value); the stub only records the call in the ghost trace
    #[verifier::external_body] pub fn set_vring_enable(&mut self, index: u32, enable: bool) -> (r: Result<()>)
        ensures final(self).trace@ == old(self).trace@.push(Call::SetVringEnable(index, enable)), final(self).rets@ == old(self).rets@.push(ret_unit(r)) { unimplemented!() }
    // assumed: ENV-HANDLER the device handler is an ARBITRARY implementation of its trait (any result / return value); the stub only records the call in the ghost trace
    #[verifier::external_body] pub fn get_config(&mut self, offset: u32, size: u32, flags: VhostUserConfigFlags) -> (r: Result<Vec<u8>>)
        ensures final(self).trace@ == old(self).trace@.push(Call::GetConfig(offset, size, flags.bits)), final(self).rets@ == old(self).rets@.push(match r { Ok(v) => Ret::Bytes(v@), Err(_) => Ret::Failed }) { unimplemented!() }
    // assumed: ENV-HANDLER the device handler is an ARBITRARY implementation of its trait (any result / return value); the stub only records the call in the ghost trace
    #[verifier::external_body] pub fn set_config(&mut self, offset: u32, buf: &[u8], flags: VhostUserConfigFlags) -> (r: Result<()>)
        ensures final(self).trace@ == old(self).trace@.push(Call::SetConfig(offset, buf@, flags.bits)), final(self).rets@ == old(self).rets@.push(ret_unit(r)) { unimplemented!() }
    // assumed: ENV-HANDLER the device handler is an ARBITRARY implementation of its trait (any result / return value); the stub only records the call in the ghost trace
    #[verifier::external_body] pub fn set_backend_req_fd(&mut self, backend: Backend)
        ensures final(self).trace@ == old(self).trace@.push(Call::SetBackendReqFd(backend.sock_id@)), final(self).rets@ == old(self).rets@.push(Ret::OkUnit) { unimplemented!() }
    // assumed: ENV-HANDLER the device handler is an ARBITRARY implementation of its trait (any result / return value); the stub only records the call in the ghost trace
    #[verifier::external_body] pub fn set_gpu_socket(&mut self, gpu_backend: GpuBackend) -> (r: Result<()>)
        ensures final(self).trace@ == old(self).trace@.push(Call::SetGpuSocket(gpu_backend.sock_id@)), final(self).rets@ == old(self).rets@.push(ret_unit(r)) { unimplemented!() }
    // assumed: ENV-HANDLER the device handler is an ARBITRARY implementation of its trait (any result / return value); the stub only records the call in the ghost trace
    #[verifier::external_body] pub fn get_shared_object(&mut self, uuid: VhostUserSharedMsg) -> (r: Result<File>)
        ensures final(self).trace@ == old(self).trace@.push(Call::GetSharedObject(uuid)), final(self).rets@ == old(self).rets@.push(match r { Ok(v) => Ret::FileId(v.id@), Err(_) => Ret::Failed }) { unimplemented!() }
    // assumed: ENV-HANDLER the device handler is an ARBITRARY implementation of its trait (any result / return value); the stub only records the call in the ghost trace
    #[verifier::external_body] pub fn get_inflight_fd(&mut self, inflight: &VhostUserInflight) -> (r: Result<(VhostUserInflight, File)>)
        ensures final(self).trace@ == old(self).trace@.push(Call::GetInflightFd(*inflight)), final(self).rets@ == old(self).rets@.push(match r { Ok(v) => Ret::Inflight(v.0, v.1.id@), Err(_) => Ret::Failed }) { unimplemented!() }
    // assumed: ENV-HANDLER the device handler is an ARBITRARY implementation of its trait (any result / return value); the stub only records the call in the ghost trace
    #[verifier::external_body] pub fn set_inflight_fd(&mut self, inflight: &VhostUserInflight, file: File) -> (r: Result<()>)
        ensures final(self).trace@ == old(self).trace@.push(Call::SetInflightFd(*inflight, file.id@)), final(self).rets@ == old(self).rets@.push(ret_unit(r)) { unimplemented!() }
    // assumed: ENV-HANDLER the device handler is an ARBITRARY implementation of its trait (any result / return value); the stub only records the call in the ghost trace
    #[verifier::external_body] pub fn get_max_mem_slots(&mut self) -> (r: Result<u64>)
        ensures final(self).trace@ == old(self).trace@.push(Call::GetMaxMemSlots), final(self).rets@ == old(self).rets@.push(ret_u64(r)) { unimplemented!() }
    // assumed: ENV-HANDLER the device handler is an ARBITRARY implementation of its trait (any result / return value); the stub only records the call in the ghost trace
    #[verifier::external_body] pub fn add_mem_region(&mut self, region: &VhostUserSingleMemoryRegion, fd: File) -> (r: Result<()>)
        ensures final(self).trace@ == old(self).trace@.push(Call::AddMemRegion(*region, fd.id@)), final(self).rets@ == old(self).rets@.push(ret_unit(r)) { unimplemented!() }
    // assumed: ENV-HANDLER the device handler is an ARBITRARY implementation of its trait (any result / return value); the stub only records the call in the ghost trace
    #[verifier::external_body] pub fn remove_mem_region(&mut self, region: &VhostUserSingleMemoryRegion) -> (r: Result<()>)
        ensures final(self).trace@ == old(self).trace@.push(Call::RemoveMemRegion(*region)), final(self).rets@ == old(self).rets@.push(ret_unit(r)) { unimplemented!() }
    // assumed: ENV-HANDLER the device handler is an ARBITRARY implementation of its trait (any result / return value); the stub only records the call in the ghost trace
    #[verifier::external_body] pub fn set_device_state_fd(&mut self, direction: VhostTransferStateDirection, phase: VhostTransferStatePhase, file: File) -> (r: Result<Option<File>>)
        ensures final(self).trace@ == old(self).trace@.push(Call::SetDeviceStateFd(direction.code(), phase.code(), file.id@)), final(self).rets@ == old(self).rets@.push(match r { Ok(Some(f)) => Ret::OptFile(Some(f.id@)), Ok(None) => Ret::OptFile(None), Err(_) => Ret::Failed }) { unimplemented!() }
    // assumed: ENV-HANDLER the device handler is an ARBITRARY implementation of its trait (any result / return value); the stub only records the call in the ghost trace
    #[verifier::external_body] pub fn check_device_state(&mut self) -> (r: Result<()>)
        ensures final(self).trace@ == old(self).trace@.push(Call::CheckDeviceState), final(self).rets@ == old(self).rets@.push(ret_unit(r)) { unimplemented!() }
    // assumed: ENV-HANDLER the device handler is an ARBITRARY implementation of its trait (any result / return value); the stub only records the call in the ghost trace
    #[verifier::external_body] pub fn get_shmem_config(&mut self) -> (r: Result<VhostUserShMemConfig>)
        ensures final(self).trace@ == old(self).trace@.push(Call::GetShmemConfig), final(self).rets@ == old(self).rets@.push(match r { Ok(v) => Ret::ShMem(v), Err(_) => Ret::Failed }) { unimplemented!() }
    // assumed: ENV-HANDLER the device handler is an ARBITRARY implementation of its trait (any result / return value); the stub only records the call in the ghost trace
    #[verifier::external_body] pub fn set_log_base(&mut self, log: &VhostUserLog, file: File) -> (r: Result<()>)
        ensures final(self).trace@ == old(self).trace@.push(Call::SetLogBase(*log, file.id@)), final(self).rets@ == old(self).rets@.push(ret_unit(r)) { unimplemented!() }
}

pub struct BackendReqHandler {
    pub main_sock: Endpoint<FrontendReq>,
    pub backend: HandlerStub,
    pub virtio_features: u64,
    pub acked_virtio_features: u64,
    pub acked_protocol_features: u64,
    pub reply_ack_enabled: bool,
    pub error: Option<i32>,
}

// representation invariant of the server (C04): the cached flag is the negotiated condition
pub open spec fn ack_negotiated(virtio_features: u64, acked_protocol_features: u64) -> bool {
    (virtio_features & 0x4000_0000) != 0 && (acked_protocol_features & 0x8) != 0
}
pub open spec fn srv_inv(s: BackendReqHandler) -> bool {
    s.reply_ack_enabled == ack_negotiated(s.virtio_features, s.acked_protocol_features)
}
