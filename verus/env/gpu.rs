// ===== contract environment: vhost-user-gpu proxy (gpu_backend_req.rs) =====
pub enum IoError { Os(i32), Other }
pub type IoResult<T> = core::result::Result<T, IoError>;
pub enum Error { InvalidMessage, SocketBroken(IoError), Other }
pub type RawFd = i32;
pub struct File { pub id: Ghost<int> }

#[allow(non_camel_case_types)]
#[derive(Clone, Copy, PartialEq, Eq)]
pub enum GpuBackendReqKind { X }

pub trait ByteValued: Sized { spec fn bytes(&self) -> Seq<u8>; spec fn decode(s: Seq<u8>) -> Self; spec fn spec_size() -> nat; }
pub trait VhostUserMsgValidator: ByteValued {
    spec fn valid_spec(&self) -> bool;
    // all GPU payload types use the trait's default validator (`true`); proved-by: scan in units_gpu.py + c20_unconstrained_validators
    fn is_valid(&self) -> (r: bool) ensures r == self.valid_spec();
}

macro_rules! gpu_body {
    ($($t:ident = $n:expr),*) => { verus! { $(
        pub struct $t { pub raw: Seq<u8> }
        impl ByteValued for $t { uninterp spec fn bytes(&self) -> Seq<u8>; uninterp spec fn decode(s: Seq<u8>) -> Self; open spec fn spec_size() -> nat { $n } }
        impl VhostUserMsgValidator for $t { open spec fn valid_spec(&self) -> bool { true } fn is_valid(&self) -> (r: bool) { true } }
    )* } }
}
gpu_body!(VhostUserEmpty = 0, VhostUserU64 = 8, VirtioGpuRespDisplayInfo = 408, VhostUserGpuEdidRequest = 4, VirtioGpuRespGetEdid = 1056,
          VhostUserGpuScanout = 12, VhostUserGpuUpdate = 20, VhostUserGpuDMABUFScanout = 40, VhostUserGpuDMABUFScanout2 = 48,
          VhostUserGpuCursorPos = 12, VhostUserGpuCursorUpdate = 20);

// header of the GPU channel: flags stored unmodified, only REPLY (bit 2) exists (proved-by: c01_c20_gpu_hdr_valid_and_new, c06_gpu_is_reply_for)
#[derive(Clone, Copy)]
pub struct VhostUserGpuMsgHeader { pub request: u32, pub flags: u32, pub size: u32 }
pub open spec fn gpu_code_ok(c: u32) -> bool { 1 <= c <= 12 }
pub open spec fn gpu_is_reply_for(h: VhostUserGpuMsgHeader, req: VhostUserGpuMsgHeader) -> bool {
    gpu_code_ok(h.request) && h.request == req.request && h.flags & 4 != 0 && req.flags & 4 == 0
}
impl VhostUserGpuMsgHeader {
    // proved-by: c01_gpu_hdr_* (kani, gpu_message.rs)
    #[verifier::external_body]
    pub fn new(request: GpuBackendReq, flags: u32, size: u32) -> (r: Self) ensures r.request == request.code(), r.flags == flags, r.size == size { unimplemented!() }
    // proved-by: c06_gpu_is_reply_for (kani, gpu_message.rs)
    #[verifier::external_body]
    pub fn is_reply_for(&self, req: &VhostUserGpuMsgHeader) -> (r: bool) ensures r == gpu_is_reply_for(*self, *req) { unimplemented!() }
}

pub struct Frame { pub request: u32, pub flags: u32, pub size: u32, pub body: Seq<u8>, pub payload: Seq<u8>, pub fds: Seq<int> }
pub struct RxFrame { pub request: u32, pub flags: u32, pub size: u32, pub body: Seq<u8>, pub fds: Seq<int> }
pub enum Ev { Tx(Frame), Rx(RxFrame) }
pub struct Endpoint { pub log: Ghost<Seq<Ev>>, pub io_failed: Ghost<bool> }
pub open spec fn opt_rawfds(v: Option<&[RawFd]>) -> Seq<int> { match v { Some(x) => x@.map(|i: int, f: RawFd| f as int), None => Seq::<int>::empty() } }
pub open spec fn rx_hdr(x: RxFrame) -> VhostUserGpuMsgHeader { VhostUserGpuMsgHeader { request: x.request, flags: x.flags, size: x.size } }
impl Endpoint {
    // proved-by: c08_send_header_frame (kani) + unit chunk + assumed: A-OS
    #[verifier::external_body]
    pub fn send_header(&mut self, hdr: &VhostUserGpuMsgHeader, fds: Option<&[RawFd]>) -> (r: core::result::Result<(), Error>)
        ensures r is Ok ==> final(self).log@ == old(self).log@.push(Ev::Tx(Frame { request: hdr.request, flags: hdr.flags, size: hdr.size, body: Seq::<u8>::empty(), payload: Seq::<u8>::empty(), fds: opt_rawfds(fds) })) && final(self).io_failed@ == old(self).io_failed@,
            r is Err ==> final(self).log@ == old(self).log@ && final(self).io_failed@ { unimplemented!() }
    // proved-by: c08_send_message_frame (kani) + unit chunk + assumed: A-OS
    #[verifier::external_body]
    pub fn send_message<T: ByteValued>(&mut self, hdr: &VhostUserGpuMsgHeader, body: &T, fds: Option<&[RawFd]>) -> (r: core::result::Result<(), Error>)
        ensures r is Ok ==> final(self).log@ == old(self).log@.push(Ev::Tx(Frame { request: hdr.request, flags: hdr.flags, size: hdr.size, body: body.bytes(), payload: Seq::<u8>::empty(), fds: opt_rawfds(fds) })) && final(self).io_failed@ == old(self).io_failed@,
            r is Err ==> final(self).log@ == old(self).log@ && final(self).io_failed@ { unimplemented!() }
    // proved-by: c08_send_message_with_payload_frame (kani) + unit chunk + assumed: A-OS
    #[verifier::external_body]
    pub fn send_message_with_payload<T: ByteValued>(&mut self, hdr: &VhostUserGpuMsgHeader, body: &T, payload: &[u8], fds: Option<&[RawFd]>) -> (r: core::result::Result<(), Error>)
        ensures r is Ok ==> final(self).log@ == old(self).log@.push(Ev::Tx(Frame { request: hdr.request, flags: hdr.flags, size: hdr.size, body: body.bytes(), payload: payload@, fds: opt_rawfds(fds) })) && final(self).io_failed@ == old(self).io_failed@,
            r is Err ==> final(self).log@ == old(self).log@ && final(self).io_failed@ { unimplemented!() }
    // proved-by: c08_recv_body_classification (kani) + unit chunk (recv_into_iovec_all) + assumed: A-OS
    #[verifier::external_body]
    pub fn recv_body<T: ByteValued>(&mut self) -> (r: core::result::Result<(VhostUserGpuMsgHeader, T, Option<Vec<File>>), Error>)
        ensures r is Err ==> final(self).log@ == old(self).log@ && final(self).io_failed@,
            r is Ok ==> final(self).io_failed@ == old(self).io_failed@
                && final(self).log@ == old(self).log@.push(Ev::Rx(final(self).log@.last()->Rx_0)) && final(self).log@.last() is Rx
                && r->Ok_0.0 == rx_hdr(final(self).log@.last()->Rx_0) && r->Ok_0.1 == T::decode(final(self).log@.last()->Rx_0.body)
                && (r->Ok_0.2 is Some) == (final(self).log@.last()->Rx_0.fds.len() > 0) { unimplemented!() }
}
// R5 target (sizes proved-by: c01_gpu_layout_table)
#[verifier::external_body]
pub fn size_of_<T: ByteValued>() -> (r: usize) ensures r as nat == T::spec_size(), r <= 4096 { unimplemented!() }
// R6 targets: io_err_convert_fn(..) closures (error text only)
pub fn io_err(e: Error) -> (r: IoError) { IoError::Other }
pub struct AsRawFdStub { pub fd: RawFd }
// R12 target of `fd.map(AsRawFd::as_raw_fd)` + `fd.as_ref().map(slice::from_ref)`
#[verifier::external_body]
pub fn opt_fd_slice<'a>(fd: Option<&'a AsRawFdStub>) -> (r: Option<&'a [RawFd]>)
    ensures opt_rawfds(r) == (match fd { Some(f) => seq![f.fd as int], None => Seq::<int>::empty() }) { unimplemented!() }

pub struct BackendInternal { pub sock: Endpoint, pub error: Option<i32> }
pub struct GpuBackend { pub inner: BackendInternal, pub acq: Ghost<nat> }
impl GpuBackend {
    // R8 (assumed: A-LOCK)
    // assumed: A-LOCK
    #[verifier::external_body]
    pub fn node(&mut self) -> (g: &mut BackendInternal)
        ensures *g == old(self).inner, final(self).inner == *final(g), final(self).acq@ == old(self).acq@ + 1 { unimplemented!() }
}
pub open spec fn glog(n: BackendInternal) -> Seq<Ev> { n.sock.log@ }
pub open spec fn gfailed(n: BackendInternal) -> bool { n.sock.io_failed@ }
pub open spec fn glast(n: BackendInternal) -> RxFrame { glog(n).last()->Rx_0 }
// GPU request frame: flags 0 (no version, no NEED_REPLY on this channel)
pub open spec fn gfr(code: u32, size: nat, body: Seq<u8>, payload: Seq<u8>, fds: Seq<int>) -> Frame {
    Frame { request: code, flags: 0, size: size as u32, body: body, payload: payload, fds: fds }
}
pub open spec fn ghdr(f: Frame) -> VhostUserGpuMsgHeader { VhostUserGpuMsgHeader { request: f.request, flags: f.flags, size: f.size } }
pub open spec fn g_send_only(o: BackendInternal, n: BackendInternal, f: Frame, ok: bool) -> bool {
    if gfailed(n) { !ok && glog(n) == glog(o) } else { ok && glog(n) == glog(o).push(Ev::Tx(f)) }
}
pub open spec fn g_send_recv(o: BackendInternal, n: BackendInternal, f: Frame, ok: bool) -> bool {
    if gfailed(n) { !ok && (glog(n) == glog(o) || glog(n) == glog(o).push(Ev::Tx(f))) }
    else { glog(n) == glog(o).push(Ev::Tx(f)).push(Ev::Rx(glast(n))) && ok == (gpu_is_reply_for(rx_hdr(glast(n)), ghdr(f)) && glast(n).fds.len() == 0) }
}
