// ===== contract environment for the `rank` unit: worker ring slices and kick event ids (C17), for ALL masks and queue counts <= 64 =====
pub type RawFd = i32;
pub open spec fn bit(m: u64, i: int) -> bool { 0 <= i < 64 && (m >> (i as u64)) & 1u64 == 1u64 }
// number of set bits of m below position i = the rank of queue i among the queues of the mask
pub open spec fn rank(m: u64, i: int) -> int decreases i { if i <= 0 { 0 } else { rank(m, i - 1) + if bit(m, i - 1) { 1int } else { 0 } } }
pub open spec fn popcount(m: u64) -> int { rank(m, 64) }
// assumed: A-POPCNT u64::count_ones (an intrinsic) returns the number of set bits
pub assume_specification [u64::count_ones](x: u64) -> (r: u32) ensures r == popcount(x);

pub proof fn lemma_rank_bounds(m: u64, i: int)
    requires 0 <= i
    ensures 0 <= rank(m, i) <= i, i >= 64 ==> rank(m, i) == rank(m, 64)
    decreases i
{ if i > 0 { lemma_rank_bounds(m, i - 1); } }
pub proof fn lemma_rank_mono(m: u64, i: int, j: int)
    requires 0 <= i <= j
    ensures rank(m, i) <= rank(m, j)
    decreases j
{ if j > i { lemma_rank_mono(m, i, j - 1); } }
pub proof fn lemma_shift_bit(m: u64, s: u64, j: u64)
    requires s < 64, j < 64
    ensures ((m >> s) >> j) & 1u64 == (if s + j < 64 { (m >> ((s + j) as u64)) & 1u64 } else { 0u64 })
{
    assert(((m >> s) >> j) & 1u64 == (if s + j < 64 { (m >> ((s + j) as u64)) & 1u64 } else { 0u64 })) by (bit_vector) requires s < 64, j < 64;
}
// rank(m >> s, n) counts the bits s .. s+n of m
pub proof fn lemma_rank_shift(m: u64, s: int, n: int)
    requires 0 <= s < 64, 0 <= n <= 64
    ensures rank(m >> (s as u64), n) == rank(m, s + n) - rank(m, s)
    decreases n
{
    if n > 0 {
        lemma_rank_shift(m, s, n - 1);
        lemma_shift_bit(m, s as u64, (n - 1) as u64);
        lemma_rank_bounds(m, s + n - 1);
        if s + n - 1 >= 64 { lemma_rank_bounds(m, s + n); }
    }
}
// popcount(mask) - popcount(mask >> q) is the number of queues of the mask below q
pub proof fn lemma_evt_idx(m: u64, s: int)
    requires 0 <= s < 64
    ensures popcount(m) - popcount(m >> (s as u64)) == rank(m, s), 0 <= popcount(m >> (s as u64)) <= popcount(m) <= 64
{
    lemma_rank_shift(m, s, 64);
    lemma_rank_bounds(m, s + 64); lemma_rank_bounds(m, s); lemma_rank_bounds(m, 64); lemma_rank_bounds(m >> (s as u64), 64);
    lemma_rank_mono(m, s, s + 64);
}

pub struct EventFd { pub fd: RawFd }
impl EventFd { pub fn as_raw_fd(&self) -> (r: RawFd) ensures r == self.fd { self.fd } }
pub enum EventSet { IN }
#[derive(PartialEq, Eq, Clone, Copy)]
pub enum IoErrorKind { AlreadyExists, Other }
pub struct IoError { pub k: IoErrorKind }
impl IoError { pub fn kind(&self) -> (r: IoErrorKind) ensures r == self.k { self.k } }
pub enum VhostUserError { ReqHandlerError(IoError), InvalidParam }
pub type VhostUserResult<T> = core::result::Result<T, VhostUserError>;
pub enum VringErr { Any }
pub enum VhostUserHandlerError { CreateVring(VringErr), CreateEpollHandler(IoError), SpawnVringWorker(IoError), MissingMemoryMapping }
pub type VhostUserHandlerResult<T> = core::result::Result<T, VhostUserHandlerError>;
pub struct QueueStub { pub ready: bool }
impl QueueStub { pub fn ready(&self) -> (r: bool) ensures r == self.ready { self.ready } }
pub struct VringState { pub kick: Option<EventFd>, pub queue: QueueStub, pub enabled: bool }
impl VringState {
    pub fn get_kick(&self) -> (r: &Option<EventFd>) ensures *r == self.kick { &self.kick }
    pub fn get_queue(&self) -> (r: &QueueStub) ensures *r == self.queue { &self.queue }
    pub fn is_enabled(&self) -> (r: bool) ensures r == self.enabled { self.enabled }
}
// a ring handle (T::Vring: a clonable handle on shared state); `id` is the ring's identity: clones share it
pub struct GM { pub g: Ghost<int> }
// assumed: A-CLONE a clone of a shared handle refers to the same object
impl GM { #[verifier::external_body] pub fn clone(&self) -> (r: GM) ensures r == *self { unimplemented!() } }
pub struct VringStub { pub id: Ghost<int>, pub st: VringState }
impl VringStub {
    pub fn get_ref(&self) -> (r: &VringState) ensures *r == self.st { &self.st }
    // assumed: VringT::new builds one ring (its identity is arbitrary: the proofs hold for every assignment, in particular all-distinct)
    #[verifier::external_body]
    pub fn new(mem: GM, max_queue_size: u16) -> (r: core::result::Result<VringStub, VringErr>) { unimplemented!() }
    // assumed: A-CLONE cloning a ring handle yields a handle on the same ring
    #[verifier::external_body]
    pub fn clone(&self) -> (r: VringStub) ensures r.id@ == self.id@ { unimplemented!() }
}
pub open spec fn ids(v: Seq<VringStub>) -> Seq<int> { Seq::new(v.len(), |i: int| v[i].id@) }
// worker t's slice: the rings whose bit is set in its mask, in increasing queue order
pub open spec fn slice_ok(vr: Seq<int>, mask: u64, slice: Seq<int>) -> bool {
    slice.len() == rank(mask, vr.len() as int)
    && forall|q: int| 0 <= q < vr.len() && bit(mask, q) ==> #[trigger] slice[rank(mask, q)] == vr[q]
}
pub struct BackendStub { pub nq: usize, pub mqs: usize, pub masks: Vec<u64> }
impl BackendStub {
    pub fn num_queues(&self) -> (r: usize) ensures r == self.nq { self.nq }
    pub fn max_queue_size(&self) -> (r: usize) ensures r == self.mqs { self.mqs }
    // assumed: ENV the backend reports its configuration
    #[verifier::external_body]
    pub fn queues_per_thread(&self) -> (r: Vec<u64>) ensures r@ == self.masks@ { unimplemented!() }
    // assumed: A-CLONE a clone of a shared handle refers to the same object
    #[verifier::external_body]
    pub fn clone(&self) -> (r: BackendStub) ensures r == *self { unimplemented!() }
}
// what the worker may be told for the ring under update (pinned by the wrapper's precondition)
pub struct Expect { pub owner: int, pub evt: int, pub fd: RawFd, pub register: bool }
// a worker: its thread id and the identities of the rings in its slice (what handle_event passes to the backend)
pub struct VringEpollHandler { pub thread: Ghost<int>, pub vrings: Ghost<Seq<int>>, pub exp: Ghost<Expect> }
impl VringEpollHandler {
    // proved-by: verus unit exitev (VringEpollHandler::new keeps backend, ring slice and thread id unchanged: [C17:worker-stores-arguments]); its dispatch is a Kani obligation: c11_c17_handle_event_dispatch
    #[verifier::external_body]
    pub fn new(backend: BackendStub, vrings: Vec<VringStub>, thread_id: usize) -> (r: core::result::Result<VringEpollHandler, IoError>)
        ensures r is Ok ==> r->Ok_0.thread@ == thread_id && r->Ok_0.vrings@ == ids(vrings@)
    { unimplemented!() }
    // argument contracts: a call on any other worker, with any other id / descriptor / direction does not verify
    // argument-contract stub: REQUIRES pins worker, event id, descriptor and direction (effect on the epoll set: proved-by: verus unit exitev register_event = one epoll_ctl(Add, fd, ev, id); kani c11_*)
    #[verifier::external_body]
    pub fn register_event(&self, fd: RawFd, ev: EventSet, data: u64) -> (r: core::result::Result<(), IoError>)
        requires self.thread@ == self.exp@.owner, data == self.exp@.evt, fd == self.exp@.fd, self.exp@.register
    { unimplemented!() }
    // argument-contract stub (as register_event; proved-by: verus unit exitev unregister_event = one epoll_ctl(Delete, fd, ev, id))
    #[verifier::external_body]
    pub fn unregister_event(&self, fd: RawFd, ev: EventSet, data: u64) -> (r: core::result::Result<(), IoError>)
        requires self.thread@ == self.exp@.owner, data == self.exp@.evt, fd == self.exp@.fd, !self.exp@.register
    { unimplemented!() }
}
// R23 targets: Arc<VringEpollHandler<T>> is modelled by the handler itself (shared immutable handle); the worker thread is opaque
pub struct HandlerRef { pub h: VringEpollHandler }
pub fn arc_new(h: VringEpollHandler) -> (r: HandlerRef) ensures r.h == h { HandlerRef { h } }
impl HandlerRef {
    #[verifier::external_body]
    pub fn clone(&self) -> (r: HandlerRef) ensures r == *self { unimplemented!() }
    pub fn register_event(&self, fd: RawFd, ev: EventSet, data: u64) -> (r: core::result::Result<(), IoError>)
        requires self.h.thread@ == self.h.exp@.owner, data == self.h.exp@.evt, fd == self.h.exp@.fd, self.h.exp@.register
    { self.h.register_event(fd, ev, data) }
    pub fn unregister_event(&self, fd: RawFd, ev: EventSet, data: u64) -> (r: core::result::Result<(), IoError>)
        requires self.h.thread@ == self.h.exp@.owner, data == self.h.exp@.evt, fd == self.h.exp@.fd, !self.h.exp@.register
    { self.h.unregister_event(fd, ev, data) }
}
pub struct JoinHandle { pub g: Ghost<int> }
// assumed: the worker thread runs handler.run() (thread spawn is outside both verifiers)
#[verifier::external_body]
pub fn spawn_worker(h: HandlerRef) -> (r: core::result::Result<JoinHandle, IoError>) { unimplemented!() }
pub struct AddrMapping { pub vmm_addr: u64, pub size: u64, pub gpa_base: u64 }
pub struct VhostUserHandler {
    pub backend: BackendStub, pub handlers: Vec<HandlerRef>, pub owned: bool, pub features_acked: bool, pub acked_features: u64,
    pub acked_protocol_features: u64, pub num_queues: usize, pub max_queue_size: usize, pub queues_per_thread: Vec<u64>,
    pub mappings: Vec<AddrMapping>, pub atomic_mem: GM, pub vrings: Vec<VringStub>, pub worker_threads: Vec<JoinHandle>,
}
// the owning worker of queue q: the FIRST thread whose mask contains q
pub open spec fn is_owner(masks: Seq<u64>, q: int, t: int) -> bool {
    0 <= t < masks.len() && bit(masks[t], q) && forall|u: int| 0 <= u < t ==> !bit(#[trigger] masks[u], q)
}
// what VhostUserHandler::new promises about the workers (its postcondition, named so that the routing lemma can quote it)
pub open spec fn workers_ok(h: VhostUserHandler) -> bool {
    h.handlers@.len() == h.queues_per_thread@.len()
    && forall|t: int| 0 <= t < h.handlers@.len() ==> (#[trigger] h.handlers@[t]).h.thread@ == t
        && slice_ok(ids(h.vrings@), h.queues_per_thread@[t], h.handlers@[t].h.vrings@)
}
