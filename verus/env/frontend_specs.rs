// ===== frontend endpoint: specification vocabulary =====

// R5 target: mem::size_of::<T>() (sizes proved-by: c01_layout_table)
#[verifier::external_body]
pub fn size_of_<T: ByteValued>() -> (r: usize) ensures r as nat == T::spec_size(), r <= 4096 { unimplemented!() }

pub proof fn lemma_req_flags(hf: u32)
    ensures ((hf | 1) & 0xc) | 1 == (hf & 0xc) | 1, ((hf & 0xc) | 1) & 4 == hf & 4, ((hf & 0xc) | 1) & 8 == hf & 8, ((hf & 0xc) | 1) & 3 == 1
{
    assert(((hf | 1) & 0xc) | 1 == (hf & 0xc) | 1) by (bit_vector);
    assert(((hf & 0xc) | 1) & 4 == hf & 4) by (bit_vector);
    assert(((hf & 0xc) | 1) & 8 == hf & 8) by (bit_vector);
    assert(((hf & 0xc) | 1) & 3 == 1) by (bit_vector);
}
// A-HDRFLAGS: the application configures only NEED_REPLY through set_hdr_flags (a request never carries REPLY)
pub open spec fn hf_ok(n: FrontendInternal) -> bool { n.hdr_flags.bits & 4 == 0 }

// request frame built by the endpoint: version 1 + only the REPLY/NEED_REPLY bits of the configured header flags
pub open spec fn fr(n: FrontendInternal, code: u32, size: nat, body: Seq<u8>, payload: Seq<u8>, fds: Seq<int>) -> Frame {
    Frame { request: code, flags: (n.hdr_flags.bits & 0xc) | 1, size: size as u32, body: body, payload: payload, fds: fds }
}
pub open spec fn hdr_of(f: Frame) -> VhostUserMsgHeader<FrontendReq> {
    VhostUserMsgHeader { request: f.request, flags: f.flags, size: f.size, _r: core::marker::PhantomData }
}
pub open spec fn frame_of_hdr(h: VhostUserMsgHeader<FrontendReq>, body: Seq<u8>, payload: Seq<u8>, fds: Seq<int>) -> Frame {
    Frame { request: h.request, flags: h.flags, size: h.size, body: body, payload: payload, fds: fds }
}

pub open spec fn logof(n: FrontendInternal) -> Seq<Ev> { n.main_sock.log@ }
pub open spec fn failed(n: FrontendInternal) -> bool { n.main_sock.io_failed@ }

pub open spec fn wire_same(o: FrontendInternal, n: FrontendInternal) -> bool { logof(n) == logof(o) }
pub open spec fn tx1(o: FrontendInternal, n: FrontendInternal, f: Frame) -> bool {
    logof(n) == logof(o).push(Ev::Tx(f)) && failed(n) == failed(o)
}
pub open spec fn rx1(o: FrontendInternal, n: FrontendInternal) -> bool {
    logof(n) == logof(o).push(Ev::Rx(last_rx(n))) && logof(n).last() is Rx && failed(n) == failed(o)
}
pub open spec fn last_rx(n: FrontendInternal) -> RxFrame { logof(n).last()->Rx_0 }

// everything except the socket
pub open spec fn state_same(o: FrontendInternal, n: FrontendInternal) -> bool {
    n.virtio_features == o.virtio_features && n.acked_virtio_features == o.acked_virtio_features
        && n.protocol_features == o.protocol_features && n.acked_protocol_features == o.acked_protocol_features
        && n.protocol_features_ready == o.protocol_features_ready && n.max_queue_num == o.max_queue_num
        && n.error == o.error && n.hdr_flags == o.hdr_flags
}

// acceptance rule for a reply frame (C06): REPLY set, same request code, no descriptors unless the request defines one
pub open spec fn reply_matches(x: RxFrame, req: VhostUserMsgHeader<FrontendReq>) -> bool {
    is_reply_for_spec(rx_hdr::<FrontendReq>(x), req)
}
pub open spec fn awaits(acked_pf: u64, f: Frame) -> bool { acked_pf & 8 != 0 && f.flags & 8 != 0 }
pub open spec fn ack_good(x: RxFrame, f: Frame) -> bool {
    reply_matches(x, hdr_of(f)) && x.fds.len() == 0 && VhostUserU64::decode(x.body).value == 0
}

// outcome of an acknowledged ("set") operation whose request frame is f, on the locked endpoint (C02, C03, C10):
//  * exactly one request frame is written, before anything is read;
//  * iff REPLY_ACK is acknowledged and the frame carries NEED_REPLY, exactly one frame is then consumed and the
//    call succeeds iff that frame is the matching reply with value 0 and no descriptors;
//  * a socket failure yields an error, and at most that one request has been written.
pub open spec fn ack_outcome(o: FrontendInternal, n: FrontendInternal, f: Frame, acked_pf: u64, ok: bool) -> bool {
    if failed(n) {
        !ok && (logof(n) == logof(o) || logof(n) == logof(o).push(Ev::Tx(f)))
    } else if awaits(acked_pf, f) {
        logof(n) == logof(o).push(Ev::Tx(f)).push(Ev::Rx(last_rx(n))) && ok == ack_good(last_rx(n), f)
    } else {
        logof(n) == logof(o).push(Ev::Tx(f)) && ok
    }
}
// outcome of a reply-bearing operation: one request, then exactly one frame consumed
pub open spec fn reply_outcome(o: FrontendInternal, n: FrontendInternal, f: Frame, ok: bool, accept: bool) -> bool {
    if failed(n) {
        !ok && (logof(n) == logof(o) || logof(n) == logof(o).push(Ev::Tx(f)))
    } else {
        logof(n) == logof(o).push(Ev::Tx(f)).push(Ev::Rx(last_rx(n))) && ok == accept
    }
}
pub open spec fn is_err_with<T>(r: Result<T>, e: VhostUserError) -> bool { r == Err::<T, Error>(Error::VhostUserProtocol(e)) }
