// Kani leaf obligations for vhost/src/vhost_user/backend_req_handler.rs (child module: private items visible).
// These discharge, on the REAL code with the REAL unsafe reads, the memory-safety side of the contracts that
// the Verus unit assumes for the R7 stubs (read_unaligned_/ref_cast_/slice_cast_), and the descriptor ledger
// of the ownership-transfer sites (C09).
#![allow(unused_imports, dead_code, non_snake_case, static_mut_refs)]
use super::*;
use core::cell::Cell;
use core::mem::size_of;

// ------------------------------------------------------------------ fd ledger (C09)
// `OwnedFd::drop` is replaced by a counter: every File/UnixStream that is dropped records its descriptor.
static mut CLOSED: [i32; 8] = [-1; 8];
static mut NCLOSED: usize = 0;
fn ledger_drop(fd: &mut std::os::fd::OwnedFd) {
    unsafe {
        let raw = std::os::fd::AsRawFd::as_raw_fd(fd);
        if NCLOSED < 8 { CLOSED[NCLOSED] = raw; }
        NCLOSED += 1;
    }
}
fn closed_count(fd: i32) -> usize {
    // loop-free on purpose (no unwinding bound involved)
    unsafe {
        let c = |i: usize| (i < NCLOSED && CLOSED[i] == fd) as usize;
        c(0) + c(1) + c(2) + c(3) + c(4) + c(5) + c(6) + c(7)
    }
}
fn nclosed() -> usize { unsafe { NCLOSED } }

// ------------------------------------------------------------------ mock application handler
#[derive(Default)]
struct KMock {
    calls: Cell<u32>,
    got_fd: Cell<i32>,       // descriptor of the last File handed over by value (then forgotten = "kept by the app")
    got_sock: Cell<i32>,
    cfg_len: Cell<usize>,
    cfg_off: Cell<u32>,
    fail: Cell<bool>,
}
impl KMock {
    fn hit(&self) -> Result<()> { self.calls.set(self.calls.get() + 1); if self.fail.get() { Err(Error::InvalidParam) } else { Ok(()) } }
    fn keep(&self, f: File) { self.got_fd.set(f.as_raw_fd()); core::mem::forget(f); }
}
impl VhostUserBackendReqHandler for KMock {
    fn set_owner(&self) -> Result<()> { self.hit() }
    fn reset_owner(&self) -> Result<()> { self.hit() }
    fn reset_device(&self) -> Result<()> { self.hit() }
    fn get_features(&self) -> Result<u64> { self.hit()?; Ok(kani::any()) }
    fn set_features(&self, _f: u64) -> Result<()> { self.hit() }
    fn set_mem_table(&self, ctx: &[VhostUserMemoryRegion], files: Vec<File>) -> Result<()> {
        // every region handed over satisfies the region rules, one file per region
        assert!(ctx.len() == files.len());
        assert!(ctx.len() >= 1 && ctx.len() <= 32);
        let i: usize = kani::any();
        kani::assume(i < ctx.len());
        let r = ctx[i];
        let (g, s, u, o) = (r.guest_phys_addr, r.memory_size, r.user_addr, r.mmap_offset);
        assert!(s != 0 && g.checked_add(s).is_some() && u.checked_add(s).is_some() && o.checked_add(s).is_some());
        core::mem::forget(files);
        self.hit()
    }
    fn set_vring_num(&self, _i: u32, _n: u32) -> Result<()> { self.hit() }
    fn set_vring_addr(&self, _i: u32, _f: VhostUserVringAddrFlags, _d: u64, _u: u64, _a: u64, _l: u64) -> Result<()> { self.hit() }
    fn set_vring_base(&self, _i: u32, _b: u32) -> Result<()> { self.hit() }
    fn get_vring_base(&self, _i: u32) -> Result<VhostUserVringState> { self.hit()?; Ok(VhostUserVringState::new(kani::any(), kani::any())) }
    fn set_vring_kick(&self, _i: u8, fd: Option<File>) -> Result<()> { if let Some(f) = fd { self.keep(f) } self.hit() }
    fn set_vring_call(&self, _i: u8, fd: Option<File>) -> Result<()> { if let Some(f) = fd { self.keep(f) } self.hit() }
    fn set_vring_err(&self, _i: u8, fd: Option<File>) -> Result<()> { if let Some(f) = fd { self.keep(f) } self.hit() }
    fn get_protocol_features(&self) -> Result<VhostUserProtocolFeatures> { self.hit()?; Ok(VhostUserProtocolFeatures::from_bits_truncate(kani::any())) }
    fn set_protocol_features(&self, _f: u64) -> Result<()> { self.hit() }
    fn get_queue_num(&self) -> Result<u64> { self.hit()?; Ok(kani::any()) }
    fn set_vring_enable(&self, _i: u32, _e: bool) -> Result<()> { self.hit() }
    fn get_config(&self, offset: u32, size: u32, flags: VhostUserConfigFlags) -> Result<Vec<u8>> {
        // the handler only ever sees a window inside [0, 0x1000) of at least one byte
        assert!(size >= 1 && (offset as u64) + (size as u64) <= 0x1000 && flags.bits() < 4);
        self.hit()?;
        Err(Error::InvalidParam)
    }
    fn set_config(&self, offset: u32, buf: &[u8], flags: VhostUserConfigFlags) -> Result<()> {
        assert!(buf.len() >= 1 && (offset as u64) + (buf.len() as u64) <= 0x1000 && flags.bits() < 4);
        self.cfg_len.set(buf.len()); self.cfg_off.set(offset);
        self.hit()
    }
    // the application drops the proxy at once: the ledger then shows which descriptor the proxy owned
    fn set_backend_req_fd(&self, backend: Backend) { drop(backend); let _ = self.hit(); }
    fn set_gpu_socket(&self, gpu: GpuBackend) -> Result<()> { drop(gpu); self.hit() }
    fn get_shared_object(&self, _u: VhostUserSharedMsg) -> Result<File> { self.hit()?; Err(Error::InvalidParam) }
    fn get_inflight_fd(&self, _i: &VhostUserInflight) -> Result<(VhostUserInflight, File)> { self.hit()?; Err(Error::InvalidParam) }
    fn set_inflight_fd(&self, _i: &VhostUserInflight, file: File) -> Result<()> { self.keep(file); self.hit() }
    fn get_max_mem_slots(&self) -> Result<u64> { self.hit()?; Ok(kani::any()) }
    fn add_mem_region(&self, _r: &VhostUserSingleMemoryRegion, fd: File) -> Result<()> { self.keep(fd); self.hit() }
    fn remove_mem_region(&self, _r: &VhostUserSingleMemoryRegion) -> Result<()> { self.hit() }
    fn set_device_state_fd(&self, _d: VhostTransferStateDirection, _p: VhostTransferStatePhase, fd: File) -> Result<Option<File>> { self.keep(fd); self.hit()?; Ok(None) }
    fn check_device_state(&self) -> Result<()> { self.hit() }
    fn get_shmem_config(&self) -> Result<VhostUserShMemConfig> { self.hit()?; Ok(VhostUserShMemConfig::default()) }
    fn set_log_base(&self, _l: &VhostUserLog, file: File) -> Result<()> { self.keep(file); self.hit() }
}

fn new_handler(mock: Arc<KMock>) -> BackendReqHandler<KMock> {
    // descriptor 100 stands for the connection; it is never used by the helpers under test
    let sock = unsafe { UnixStream::from_raw_fd(100) };
    BackendReqHandler::new(Endpoint::<VhostUserMsgHeader<FrontendReq>>::from_stream(sock), mock)
}
fn any_hdr() -> VhostUserMsgHeader<FrontendReq> {
    let c: u32 = kani::any();
    kani::assume(c >= 1 && c <= 44);
    let mut h = VhostUserMsgHeader::<FrontendReq>::new(FrontendReq::try_from(c).unwrap(), 0, kani::any());
    // arbitrary flag word
    let f: u32 = kani::any();
    h.set_version(f & 3);
    h.set_reply(f & 4 != 0);
    h.set_need_reply(f & 8 != 0);
    h
}

// ------------------------------------------------------------------ C05: extract_request_body<T>
// contract (same as the Verus stub's): requires buf.len() >= size;
//   Ok(m)  <==> hdr.size == size == size_of::<T>() && !reply && version 1 && decode(buf[..size_of]).is_valid()
//   Ok(m)  ==> m's byte image == buf[..size_of::<T>()]        (no read outside the message: Kani's pointer checks)
macro_rules! extract_harness {
    ($name:ident, $t:ty) => {
        #[kani::proof]
        #[kani::unwind(50)]
        fn $name() {
            const N: usize = 48;
            let mock = Arc::new(KMock::default());
            let h = new_handler(mock);
            let hdr = any_hdr();
            let arr: [u8; N] = kani::any();
            let len: usize = kani::any();
            kani::assume(len <= N);
            let size: usize = kani::any();
            kani::assume(size <= len);                       // caller invariant (arm_pre): buf.len() >= size
            let buf = &arr[..len];
            let res = h.extract_request_body::<$t>(&hdr, size, buf);
            let sz = size_of::<$t>();
            let shape_ok = hdr.get_size() as usize == sz && !hdr.is_reply() && hdr.get_version() == 1 && size == sz;
            match res {
                Ok(m) => {
                    assert!(shape_ok);
                    assert!(m.is_valid());
                    let mb = m.as_slice();
                    let k: usize = kani::any();
                    kani::assume(k < sz);
                    assert!(mb[k] == buf[k]);
                }
                Err(_) => {
                    if shape_ok {
                        let m: $t = unsafe { std::ptr::read_unaligned(buf.as_ptr() as *const $t) };
                        assert!(!m.is_valid());
                    }
                }
            }
            kani::cover!(shape_ok);
            core::mem::forget(h);
        }
    };
}
extract_harness!(c05_extract_body_u64, VhostUserU64);
extract_harness!(c05_extract_body_vring_state, VhostUserVringState);
extract_harness!(c05_extract_body_vring_addr, VhostUserVringAddr);
extract_harness!(c05_extract_body_inflight, VhostUserInflight);
extract_harness!(c05_extract_body_single_region, VhostUserSingleMemoryRegion);
extract_harness!(c05_extract_body_log, VhostUserLog);
extract_harness!(c05_extract_body_shared_msg, VhostUserSharedMsg);
extract_harness!(c05_extract_body_transfer_state, VhostUserTransferDeviceState);

// ------------------------------------------------------------------ C05: check_request_size / check_attached_files
#[kani::proof]
fn c05_check_request_size() {
    let h = new_handler(Arc::new(KMock::default()));
    let hdr = any_hdr();
    let (size, expected): (usize, usize) = (kani::any(), kani::any());
    let r = h.check_request_size(&hdr, size, expected);
    let spec = hdr.get_size() as usize == expected && !hdr.is_reply() && hdr.get_version() == 1 && size == expected;
    assert!(r.is_ok() == spec);
    core::mem::forget(h);
}

// NOT REGISTERED: no verdict within 50 min (FrontendReq::try_from over all u32 + Vec<File> glue); check_attached_files is verified in unit `backend` (Verus)
#[kani::proof]
fn x05_check_attached_files_policy() {
    let h = new_handler(Arc::new(KMock::default()));
    let c: u32 = kani::any();
    let req = match FrontendReq::try_from(c) { Ok(r) => r, Err(_) => return };
    let hdr = VhostUserMsgHeader::<FrontendReq>::new(req, 0, 0);
    // requests that may carry descriptors (vhost-user spec)
    let takes = c == 5 || c == 6 || c == 7 || c == 12 || c == 13 || c == 14 || c == 21
        || c == 32 || c == 33 || c == 37 || c == 42;
    let with: bool = kani::any();
    let files: Option<Vec<File>> = if with { Some(Vec::new()) } else { None };
    let ok = h.check_attached_files(&hdr, &files).is_ok();
    assert!(ok == (takes || !with));
    core::mem::forget(files);
    core::mem::forget(h);
}

// ------------------------------------------------------------------ C05/C09: handle_vring_fd_request
#[kani::proof]
#[kani::stub(<std::os::fd::OwnedFd as std::ops::Drop>::drop, ledger_drop)]
#[kani::unwind(20)]
fn c05_c09_handle_vring_fd_request() {
    let mut h = new_handler(Arc::new(KMock::default()));
    let arr: [u8; 16] = kani::any();
    let len: usize = kani::any();
    kani::assume(len <= 16);
    let buf = &arr[..len];
    let nfiles: usize = kani::any();
    kani::assume(nfiles <= 3);
    let files = match nfiles {
        0 => None,
        1 => Some(vec![unsafe { File::from_raw_fd(201) }]),
        2 => Some(vec![unsafe { File::from_raw_fd(201) }, unsafe { File::from_raw_fd(202) }]),
        _ => Some(vec![unsafe { File::from_raw_fd(201) }, unsafe { File::from_raw_fd(202) }, unsafe { File::from_raw_fd(203) }]),
    };
    let r = h.handle_vring_fd_request(buf, files);
    let v = if len >= 8 { u64::from_ne_bytes([arr[0], arr[1], arr[2], arr[3], arr[4], arr[5], arr[6], arr[7]]) } else { 0 };
    let has_fd = (v >> 8) % 2 == 0;
    // exactly the number of descriptors the request prescribes: one when bit 8 is clear, none when it is set
    let spec_ok = len >= 8 && (if has_fd { nfiles == 1 } else { nfiles == 0 });
    match r {
        Ok((idx, f)) => {
            assert!(spec_ok);
            assert!(idx == (v % 256) as u8);
            assert!(f.is_some() == has_fd);
            if let Some(f) = f {
                assert!(f.as_raw_fd() == 201);
                assert!(closed_count(201) == 0);          // handed over, not closed
                core::mem::forget(f);
            }
            assert!(nclosed() == 0);
        }
        Err(_) => {
            assert!(!spec_ok);
            // every received descriptor is closed exactly once by the library
            assert!(nclosed() == nfiles);
            if nfiles >= 1 { assert!(closed_count(201) == 1); }
            if nfiles >= 2 { assert!(closed_count(202) == 1); }
            if nfiles >= 3 { assert!(closed_count(203) == 1); }
        }
    }
    core::mem::forget(h);
}

// ------------------------------------------------------------------ C09: set_backend_req_fd / set_gpu_socket ledger
#[kani::proof]
#[kani::stub(<std::os::fd::OwnedFd as std::ops::Drop>::drop, ledger_drop)]
#[kani::unwind(6)]
fn c09_set_backend_req_fd_ledger() {
    let mock = Arc::new(KMock::default());
    let mut h = new_handler(mock.clone());
    let nfiles: usize = kani::any();
    kani::assume(nfiles <= 2);
    let files = match nfiles {
        0 => None,
        1 => Some(vec![unsafe { File::from_raw_fd(201) }]),
        _ => Some(vec![unsafe { File::from_raw_fd(201) }, unsafe { File::from_raw_fd(202) }]),
    };
    let r = h.set_backend_req_fd(files);
    if nfiles == 1 {
        assert!(r.is_ok());
        // the proxy handed to the application owned exactly the received descriptor: dropping it closed 201 once,
        // and the library itself closed nothing
        assert!(mock.calls.get() == 1);
        assert!(nclosed() == 1 && closed_count(201) == 1);
    } else {
        assert!(r.is_err());
        assert!(mock.calls.get() == 0);
        assert!(nclosed() == nfiles);
    }
    core::mem::forget(h);
}

#[kani::proof]
#[kani::stub(<std::os::fd::OwnedFd as std::ops::Drop>::drop, ledger_drop)]
#[kani::unwind(6)]
fn c09_set_gpu_socket_ledger() {
    let mock = Arc::new(KMock::default());
    let mut h = new_handler(mock.clone());
    let nfiles: usize = kani::any();
    kani::assume(nfiles <= 2);
    let files = match nfiles {
        0 => None,
        1 => Some(vec![unsafe { File::from_raw_fd(201) }]),
        _ => Some(vec![unsafe { File::from_raw_fd(201) }, unsafe { File::from_raw_fd(202) }]),
    };
    let r = h.set_gpu_socket(files);
    if nfiles == 1 {
        assert!(r.is_ok());
        assert!(mock.calls.get() == 1);
        assert!(nclosed() == 1 && closed_count(201) == 1);
    } else {
        assert!(r.is_err());
        assert!(mock.calls.get() == 0);
        assert!(nclosed() == nfiles);
    }
    core::mem::forget(h);
}

// ------------------------------------------------------------------ C05: set_mem_table validation prefix (bounded: <= 2 regions)
#[kani::proof]
#[kani::stub(<std::os::fd::OwnedFd as std::ops::Drop>::drop, ledger_drop)]
#[kani::unwind(5)]
fn c05_set_mem_table_bounded() {
    const N: usize = 8 + 32 * 2;
    let mock = Arc::new(KMock::default());
    let mut h = new_handler(mock.clone());
    let arr: [u8; N] = kani::any();
    let len: usize = kani::any();
    kani::assume(len <= N);
    let buf = &arr[..len];
    let mut hdr = any_hdr();
    hdr.set_size(len as u32);
    let nfiles: usize = kani::any();
    kani::assume(nfiles <= 2);
    let files = match nfiles {
        0 => None,
        1 => Some(vec![unsafe { File::from_raw_fd(201) }]),
        _ => Some(vec![unsafe { File::from_raw_fd(201) }, unsafe { File::from_raw_fd(202) }]),
    };
    let r = h.set_mem_table(&hdr, len, buf, files);
    // the mock asserts the region rules and the file count on everything it is handed;
    // Kani's pointer checks cover the two unsafe casts.
    if r.is_ok() {
        assert!(mock.calls.get() == 1);
        assert!(len >= 8);
        let n = u32::from_ne_bytes([arr[0], arr[1], arr[2], arr[3]]) as usize;
        assert!(n >= 1 && n <= 2 && len == 8 + 32 * n && nfiles == n);
    }
    core::mem::forget(h);
}

// ------------------------------------------------------------------ C05: set_config window (bounded: payload <= 8 bytes)
#[kani::proof]
#[kani::unwind(24)]
fn c05_set_config_bounded() {
    const N: usize = 12 + 8;
    let mock = Arc::new(KMock::default());
    let mut h = new_handler(mock.clone());
    let arr: [u8; N] = kani::any();
    let len: usize = kani::any();
    kani::assume(len <= N);
    let buf = &arr[..len];
    let r = h.set_config(len, buf);
    if mock.calls.get() == 1 {
        // payload handed over == exactly the declared size, which is what follows the 12-byte body
        assert!(len >= 12);
        let declared = u32::from_ne_bytes([arr[4], arr[5], arr[6], arr[7]]) as usize;
        let off = u32::from_ne_bytes([arr[0], arr[1], arr[2], arr[3]]);
        assert!(mock.cfg_len.get() == declared && declared == len - 12 && mock.cfg_off.get() == off);
    } else {
        assert!(r.is_err());
    }
    core::mem::forget(h);
}

// ------------------------------------------------------------------ C04: reply-ack flag algebra (full domain)
#[kani::proof]
fn c04_update_reply_ack_flag() {
    let mut h = new_handler(Arc::new(KMock::default()));
    h.virtio_features = kani::any();
    h.acked_virtio_features = kani::any();
    h.acked_protocol_features = kani::any();
    h.reply_ack_enabled = kani::any();
    let (vf, pf) = (h.virtio_features, h.acked_protocol_features);
    h.update_reply_ack_flag();
    // negotiated == PROTOCOL_FEATURES (bit 30) offered && REPLY_ACK (bit 3) acknowledged
    assert!(h.reply_ack_enabled == (((vf >> 30) % 2 == 1) && ((pf >> 3) % 2 == 1)));
    core::mem::forget(h);
}

#[kani::proof]
fn c04_new_reply_header() {
    let h = new_handler(Arc::new(KMock::default()));
    let req = any_hdr();
    let payload: usize = kani::any();
    let r = h.new_reply_header::<VhostUserU64>(&req, payload);
    match r {
        Ok(rh) => {
            assert!(payload <= 4096 - 8);
            let (a, b) = (match rh.get_code() { Ok(c) => c as u32, Err(_) => 0 }, match req.get_code() { Ok(c) => c as u32, Err(_) => 1 });
            assert!(a == b);
            assert!(rh.is_reply() && !rh.is_need_reply() && rh.get_version() == 1);
            assert!(rh.get_size() as usize == 8 + payload);
        }
        Err(_) => assert!(payload > 4096 - 8),
    }
    core::mem::forget(h);
}
