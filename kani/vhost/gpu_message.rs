// Kani leaf obligations for vhost/src/vhost_user/gpu_message.rs (vhost-user-gpu channel), child module.
#![allow(unused_imports, dead_code, non_snake_case)]
use super::*;
use core::mem::{offset_of, size_of};

fn any_hdr() -> VhostUserGpuMsgHeader<GpuBackendReq> {
    VhostUserGpuMsgHeader::<GpuBackendReq> { request: kani::any(), flags: kani::any(), size: kani::any(), _r: PhantomData }
}
fn spec_gpu_code(c: u32) -> bool { c >= 1 && c <= 12 }

// header: only the REPLY bit exists on this channel; flags are stored unmodified, no version field
#[kani::proof]
fn c01_c20_gpu_hdr_valid_and_new() {
    let h = any_hdr();
    let (r, f) = (h.request, h.flags);
    assert!(h.is_valid() == (spec_gpu_code(r) && (f == 0 || f == 4)));
    let c: u32 = kani::any();
    kani::assume(spec_gpu_code(c));
    let code = GpuBackendReq::try_from(c).unwrap();
    let (fl, sz): (u32, u32) = (kani::any(), kani::any());
    let n = VhostUserGpuMsgHeader::<GpuBackendReq>::new(code, fl, sz);
    let (nr, nf, ns) = (n.request, n.flags, n.size);
    assert!(nr == c && nf == fl && ns == sz);
    let b = n.as_slice();
    assert!(b.len() == 12);
    let (rb, fb, sb) = (c.to_ne_bytes(), fl.to_ne_bytes(), sz.to_ne_bytes());
    assert!(b[0] == rb[0] && b[3] == rb[3] && b[4] == fb[0] && b[7] == fb[3] && b[8] == sb[0] && b[11] == sb[3]);
}

#[kani::proof]
fn c06_gpu_is_reply_for() {
    let a = any_hdr();
    let b = any_hdr();
    let (ar, af, br, bf) = (a.request, a.flags, b.request, b.flags);
    let spec = spec_gpu_code(ar) && ar == br && (af & 4) != 0 && (bf & 4) == 0;
    kani::cover!(spec);
    assert!(a.is_reply_for(&b) == spec);
}

#[kani::proof]
fn c01_gpu_code_table() {
    use GpuBackendReq as G;
    let t: [(G, u32); 12] = [(G::GET_PROTOCOL_FEATURES, 1), (G::SET_PROTOCOL_FEATURES, 2), (G::GET_DISPLAY_INFO, 3), (G::CURSOR_POS, 4),
        (G::CURSOR_POS_HIDE, 5), (G::CURSOR_UPDATE, 6), (G::SCANOUT, 7), (G::UPDATE, 8), (G::DMABUF_SCANOUT, 9), (G::DMABUF_UPDATE, 10),
        (G::GET_EDID, 11), (G::DMABUF_SCANOUT2, 12)];
    let i: usize = kani::any();
    kani::assume(i < 12);
    assert!(t[i].0 as u32 == t[i].1);
    let c: u32 = kani::any();
    match GpuBackendReq::try_from(c) { Ok(r) => assert!(spec_gpu_code(c) && r as u32 == c), Err(_) => assert!(!spec_gpu_code(c)) }
    assert!(VhostUserGpuHeaderFlag::REPLY.bits() == 4);
}

// payload layouts (vhost-user-gpu specification / virtio-gpu structures)
#[kani::proof]
fn c01_gpu_layout_table() {
    assert!(size_of::<VhostUserGpuMsgHeader<GpuBackendReq>>() == 12);
    assert!(size_of::<VirtioGpuCtrlHdr>() == 24 && offset_of!(VirtioGpuCtrlHdr, type_) == 0 && offset_of!(VirtioGpuCtrlHdr, flags) == 4
        && offset_of!(VirtioGpuCtrlHdr, fence_id) == 8 && offset_of!(VirtioGpuCtrlHdr, ctx_id) == 16 && offset_of!(VirtioGpuCtrlHdr, ring_idx) == 20);
    assert!(size_of::<VirtioGpuRect>() == 16 && size_of::<VirtioGpuDisplayOne>() == 24 && offset_of!(VirtioGpuDisplayOne, enabled) == 16 && offset_of!(VirtioGpuDisplayOne, flags) == 20);
    assert!(size_of::<VirtioGpuRespDisplayInfo>() == 24 + 16 * 24 && offset_of!(VirtioGpuRespDisplayInfo, pmodes) == 24);
    assert!(size_of::<VhostUserGpuEdidRequest>() == 4);
    assert!(size_of::<VhostUserGpuUpdate>() == 20 && offset_of!(VhostUserGpuUpdate, x) == 4 && offset_of!(VhostUserGpuUpdate, height) == 16);
    assert!(size_of::<VhostUserGpuDMABUFScanout>() == 40 && offset_of!(VhostUserGpuDMABUFScanout, fd_width) == 20 && offset_of!(VhostUserGpuDMABUFScanout, fd_drm_fourcc) == 36);
    assert!(size_of::<VhostUserGpuDMABUFScanout2>() == 48 && offset_of!(VhostUserGpuDMABUFScanout2, modifier) == 40);
    assert!(size_of::<VhostUserGpuCursorPos>() == 12 && size_of::<VhostUserGpuCursorUpdate>() == 20 && offset_of!(VhostUserGpuCursorUpdate, hot_x) == 12);
    assert!(size_of::<VirtioGpuRespGetEdid>() == 24 + 8 + 1024 && offset_of!(VirtioGpuRespGetEdid, size) == 24 && offset_of!(VirtioGpuRespGetEdid, edid) == 32);
    assert!(size_of::<VhostUserGpuScanout>() == 12);
}
