// Kani leaf obligations for vhost/src/vhost_user/message.rs.
// Injected as a child module of `message` (see kx.py); `super::*` therefore
// includes private fields and pub(super) items.  Every harness below is
// loop-free over full-domain symbolic inputs (complete, not bounded) unless
// its name ends in `_bounded`.
//
// Oracles are written from the vhost-user specification / the property text,
// NOT from the crate's own constants: literal numbers on purpose.
#![allow(unused_imports, dead_code, non_snake_case)]
use super::*;
use core::mem::{align_of, offset_of, size_of};

// ---------------------------------------------------------------- helpers
fn any_hdr<R: Req>() -> VhostUserMsgHeader<R> {
    VhostUserMsgHeader::<R> {
        request: kani::any(),
        flags: kani::any(),
        size: kani::any(),
        _r: PhantomData,
    }
}
fn spec_frontend_code(c: u32) -> bool { c >= 1 && c <= 44 }
fn spec_backend_code(c: u32) -> bool { c >= 1 && c <= 10 }
fn wraps(a: u64, b: u64) -> bool { (a as u128) + (b as u128) > (u64::MAX as u128) }

// ---------------------------------------------------------------- C20: header validators
#[kani::proof]
fn c20_hdr_valid_frontend() {
    let h = any_hdr::<FrontendReq>();
    let (request, flags, size) = (h.request, h.flags, h.size);
    let spec = spec_frontend_code(request)
        && size <= 4096
        && (flags % 4) == 1
        && (flags >> 4) == 0;
    kani::cover!(spec);
    kani::cover!(!spec);
    assert!(h.is_valid() == spec);
}

#[kani::proof]
fn c20_hdr_valid_backend() {
    let h = any_hdr::<BackendReq>();
    let (request, flags, size) = (h.request, h.flags, h.size);
    let spec = spec_backend_code(request)
        && size <= 4096
        && (flags % 4) == 1
        && (flags >> 4) == 0;
    kani::cover!(spec);
    kani::cover!(!spec);
    assert!(h.is_valid() == spec);
}

// request-code tables: try_from accepts exactly the specified codes and maps
// each to the variant with that number.
#[kani::proof]
fn c20_frontend_req_code_table() {
    let c: u32 = kani::any();
    match FrontendReq::try_from(c) {
        Ok(r) => { assert!(spec_frontend_code(c)); assert!(r as u32 == c); let back: u32 = r.into(); assert!(back == c); }
        Err(_) => assert!(!spec_frontend_code(c)),
    }
}
#[kani::proof]
fn c20_backend_req_code_table() {
    let c: u32 = kani::any();
    match BackendReq::try_from(c) {
        Ok(r) => { assert!(spec_backend_code(c)); assert!(r as u32 == c); let back: u32 = r.into(); assert!(back == c); }
        Err(_) => assert!(!spec_backend_code(c)),
    }
}

// ---------------------------------------------------------------- C20: body validators
#[kani::proof]
fn c20_memory_valid() {
    let m = VhostUserMemory { num_regions: kani::any(), padding1: kani::any() };
    let (n, p) = (m.num_regions, m.padding1);
    let spec = p == 0 && n >= 1 && n <= 32;
    kani::cover!(spec);
    assert!(m.is_valid() == spec);
}

fn any_region() -> VhostUserMemoryRegion {
    VhostUserMemoryRegion {
        guest_phys_addr: kani::any(),
        memory_size: kani::any(),
        user_addr: kani::any(),
        mmap_offset: kani::any(),
    }
}
fn spec_region(g: u64, s: u64, u: u64, o: u64) -> bool {
    s != 0 && !wraps(g, s) && !wraps(u, s) && !wraps(o, s)
}

#[kani::proof]
fn c20_memory_region_valid() {
    let r = any_region();
    let spec = spec_region(r.guest_phys_addr, r.memory_size, r.user_addr, r.mmap_offset);
    kani::cover!(spec);
    kani::cover!(!spec);
    assert!(VhostUserMsgValidator::is_valid(&r) == spec);
}

// "Single-region add/remove messages are held to the same region rules as the memory table."
#[kani::proof]
fn c20_single_memory_region_valid() {
    let r = any_region();
    let m = VhostUserSingleMemoryRegion { padding: kani::any(), region: r };
    let spec = spec_region(r.guest_phys_addr, r.memory_size, r.user_addr, r.mmap_offset);
    kani::cover!(spec);
    kani::cover!(!spec);
    assert!(VhostUserMsgValidator::is_valid(&m) == spec);
}

#[kani::proof]
fn c20_vring_addr_valid() {
    let m = VhostUserVringAddr {
        index: kani::any(), flags: kani::any(), descriptor: kani::any(),
        used: kani::any(), available: kani::any(), log: kani::any(),
    };
    let (flags, d, u, a) = (m.flags, m.descriptor, m.used, m.available);
    let spec = (flags >> 1) == 0 && d % 16 == 0 && a % 2 == 0 && u % 4 == 0;
    kani::cover!(spec);
    kani::cover!(!spec);
    assert!(m.is_valid() == spec);
}

#[kani::proof]
fn c20_config_valid() {
    let m = VhostUserConfig { offset: kani::any(), size: kani::any(), flags: kani::any() };
    let (off, size, flags) = (m.offset, m.size, m.flags);
    let spec = size >= 1 && (off as u64) + (size as u64) <= 0x1000 && (flags >> 2) == 0;
    kani::cover!(spec);
    kani::cover!(!spec);
    assert!(m.is_valid() == spec);
}

#[kani::proof]
fn c20_inflight_valid() {
    let m = VhostUserInflight {
        mmap_size: kani::any(), mmap_offset: kani::any(),
        num_queues: kani::any(), queue_size: kani::any(),
    };
    let spec = m.num_queues != 0 && m.queue_size != 0;
    kani::cover!(spec);
    assert!(m.is_valid() == spec);
}

#[kani::proof]
fn c20_log_valid() {
    let m = VhostUserLog { mmap_size: kani::any(), mmap_offset: kani::any() };
    let spec = m.mmap_size != 0 && !wraps(m.mmap_offset, m.mmap_size);
    kani::cover!(spec);
    kani::cover!(!spec);
    assert!(m.is_valid() == spec);
}

#[kani::proof]
fn c20_transfer_state_valid() {
    let m = VhostUserTransferDeviceState { direction: kani::any(), phase: kani::any() };
    let (d, p) = (m.direction, m.phase);
    let spec = (d == 0 || d == 1) && p == 0;
    kani::cover!(spec);
    assert!(m.is_valid() == spec);
    // the code tables themselves
    match VhostTransferStateDirection::try_from(d) { Ok(v) => assert!(v as u32 == d && d <= 1), Err(_) => assert!(d > 1) }
    match VhostTransferStatePhase::try_from(p) { Ok(v) => assert!(v as u32 == p && p == 0), Err(_) => assert!(p != 0) }
}

#[kani::proof]
fn c20_shared_msg_valid() {
    let b: [u8; 16] = kani::any();
    let m = VhostUserSharedMsg { uuid: Uuid::from_bytes(b) };
    let mut all0 = true; let mut allf = true;
    let mut i = 0;
    while i < 16 { if b[i] != 0 { all0 = false; } if b[i] != 0xff { allf = false; } i += 1; }
    let spec = !all0 && !allf;
    kani::cover!(spec);
    kani::cover!(all0);
    kani::cover!(allf);
    assert!(m.is_valid() == spec);
}

#[kani::proof]
fn c20_mmap_valid() {
    let m = VhostUserMMap {
        shmid: kani::any(), padding: kani::any(), fd_offset: kani::any(),
        shm_offset: kani::any(), len: kani::any(), flags: kani::any(),
    };
    let (fo, so, len, fl) = (m.fd_offset, m.shm_offset, m.len, m.flags);
    let spec = len != 0 && !wraps(fo, len) && !wraps(so, len) && (fl >> 1) == 0;
    kani::cover!(spec);
    kani::cover!(!spec);
    assert!(m.is_valid() == spec);
}

// validators the protocol leaves unconstrained: registered as "accepts everything"
#[kani::proof]
fn c20_unconstrained_validators() {
    assert!(VhostUserU64 { value: kani::any() }.is_valid());
    assert!(VhostUserVringState { index: kani::any(), num: kani::any() }.is_valid());
    assert!(VhostUserEmpty.is_valid());
}

// ---------------------------------------------------------------- C01/C06: header algebra
#[kani::proof]
fn c01_hdr_new_frontend() {
    let c: u32 = kani::any();
    kani::assume(spec_frontend_code(c));
    let code = FrontendReq::try_from(c).unwrap();
    let flags: u32 = kani::any();
    let size: u32 = kani::any();
    let h = VhostUserMsgHeader::<FrontendReq>::new(code, flags, size);
    let (r, f, s) = (h.request, h.flags, h.size);
    assert!(r == c);
    assert!(f == ((flags & 0xC) | 1));   // version 1, only REPLY / NEED_REPLY survive
    assert!(s == size);
    // byte image: 12 bytes, native endian, request | flags | size
    let b = h.as_slice();
    assert!(b.len() == 12);
    let rb = c.to_ne_bytes(); let fb = f.to_ne_bytes(); let sb = size.to_ne_bytes();
    assert!(b[0] == rb[0] && b[1] == rb[1] && b[2] == rb[2] && b[3] == rb[3]);
    assert!(b[4] == fb[0] && b[5] == fb[1] && b[6] == fb[2] && b[7] == fb[3]);
    assert!(b[8] == sb[0] && b[9] == sb[1] && b[10] == sb[2] && b[11] == sb[3]);
}
#[kani::proof]
fn c01_hdr_new_backend() {
    let c: u32 = kani::any();
    kani::assume(spec_backend_code(c));
    let code = BackendReq::try_from(c).unwrap();
    let flags: u32 = kani::any();
    let size: u32 = kani::any();
    let h = VhostUserMsgHeader::<BackendReq>::new(code, flags, size);
    let (r, f, s) = (h.request, h.flags, h.size);
    assert!(r == c && f == ((flags & 0xC) | 1) && s == size);
}

#[kani::proof]
fn c01_hdr_accessors() {
    let mut h = any_hdr::<FrontendReq>();
    let (r0, f0, s0) = (h.request, h.flags, h.size);
    assert!(h.get_size() == s0);
    assert!(h.get_version() == f0 % 4);
    assert!(h.is_reply() == ((f0 >> 2) % 2 == 1));
    assert!(h.is_need_reply() == ((f0 >> 3) % 2 == 1));
    match h.get_code() { Ok(c) => assert!(c as u32 == r0 && spec_frontend_code(r0)), Err(_) => assert!(!spec_frontend_code(r0)) }
    let b: bool = kani::any();
    h.set_reply(b);
    let f1 = h.flags;
    assert!(h.is_reply() == b && (f1 | 4) == (f0 | 4));
    let n: bool = kani::any();
    h.set_need_reply(n);
    let f2 = h.flags;
    assert!(h.is_need_reply() == n && (f2 | 8) == (f1 | 8));
    assert!(f2 == if n { f1 | 8 } else { f1 & !8 });
    if f1 == 1 { assert!(f2 == if n { 9 } else { 1 }); }
    let sz: u32 = kani::any();
    h.set_size(sz);
    assert!(h.get_size() == sz);
    let v: u32 = kani::any();
    h.set_version(v);
    let f3 = h.flags;
    assert!(h.get_version() == v % 4 && (f3 | 3) == (f2 | 3));
    let r3 = h.request;
    assert!(r3 == r0);
}

#[kani::proof]
fn c06_is_reply_for_frontend() {
    let a = any_hdr::<FrontendReq>();
    let b = any_hdr::<FrontendReq>();
    let (ar, af, br, bf) = (a.request, a.flags, b.request, b.flags);
    let spec = spec_frontend_code(ar) && ar == br && (af & 4) != 0 && (bf & 4) == 0;
    kani::cover!(spec);
    assert!(a.is_reply_for(&b) == spec);
}
#[kani::proof]
fn c06_is_reply_for_backend() {
    let a = any_hdr::<BackendReq>();
    let b = any_hdr::<BackendReq>();
    let (ar, af, br, bf) = (a.request, a.flags, b.request, b.flags);
    let spec = spec_backend_code(ar) && ar == br && (af & 4) != 0 && (bf & 4) == 0;
    kani::cover!(spec);
    assert!(a.is_reply_for(&b) == spec);
}

// ---------------------------------------------------------------- C01: layout table (vhost-user spec)
macro_rules! layout {
    ($t:ty, size $s:expr, $( $f:tt @ $o:expr ),* ) => {
        assert!(size_of::<$t>() == $s);
        $( assert!(offset_of!($t, $f) == $o); )*
    };
}
#[kani::proof]
fn c01_layout_table() {
    layout!(VhostUserMsgHeader<FrontendReq>, size 12, request @ 0, flags @ 4, size @ 8);
    layout!(VhostUserMsgHeader<BackendReq>, size 12, request @ 0, flags @ 4, size @ 8);
    assert!(size_of::<VhostUserEmpty>() == 0);
    layout!(VhostUserU64, size 8, value @ 0);
    layout!(VhostUserMemory, size 8, num_regions @ 0, padding1 @ 4);
    layout!(VhostUserMemoryRegion, size 32, guest_phys_addr @ 0, memory_size @ 8, user_addr @ 16, mmap_offset @ 24);
    layout!(VhostUserSingleMemoryRegion, size 40, padding @ 0, region @ 8);
    layout!(VhostUserShMemConfig, size 2056, nregions @ 0, padding @ 4, memory_sizes @ 8);
    layout!(VhostUserVringState, size 8, index @ 0, num @ 4);
    layout!(VhostUserVringAddr, size 40, index @ 0, flags @ 4, descriptor @ 8, used @ 16, available @ 24, log @ 32);
    layout!(VhostUserConfig, size 12, offset @ 0, size @ 4, flags @ 8);
    layout!(VhostUserInflight, size 24, mmap_size @ 0, mmap_offset @ 8, num_queues @ 16, queue_size @ 18);
    layout!(VhostUserLog, size 16, mmap_size @ 0, mmap_offset @ 8);
    layout!(VhostUserSharedMsg, size 16, uuid @ 0);
    layout!(VhostUserTransferDeviceState, size 8, direction @ 0, phase @ 4);
    layout!(VhostUserMMap, size 40, shmid @ 0, padding @ 1, fd_offset @ 8, shm_offset @ 16, len @ 24, flags @ 32);
    // limits
    assert!(MAX_MSG_SIZE == 4096);
    assert!(MAX_ATTACHED_FD_ENTRIES == 32);
    assert!(VHOST_USER_CONFIG_SIZE == 0x1000);
    assert!(<VhostUserMsgHeader<FrontendReq> as MsgHeader>::MAX_MSG_SIZE == 4096);
}

// feature / flag bit tables (vhost-user spec numbering)
#[kani::proof]
fn c01_flag_tables() {
    assert!(VhostUserHeaderFlag::VERSION.bits() == 0x3);
    assert!(VhostUserHeaderFlag::REPLY.bits() == 0x4);
    assert!(VhostUserHeaderFlag::NEED_REPLY.bits() == 0x8);
    assert!(VhostUserHeaderFlag::ALL_FLAGS.bits() == 0xc);
    assert!(VhostUserHeaderFlag::RESERVED_BITS.bits() == 0xffff_fff0);
    assert!(VhostUserVirtioFeatures::LOG_ALL.bits() == 1u64 << 26);
    assert!(VhostUserVirtioFeatures::PROTOCOL_FEATURES.bits() == 1u64 << 30);
    let p = |b: VhostUserProtocolFeatures, n: u32| b.bits() == 1u64 << n;
    assert!(p(VhostUserProtocolFeatures::MQ, 0));
    assert!(p(VhostUserProtocolFeatures::LOG_SHMFD, 1));
    assert!(p(VhostUserProtocolFeatures::RARP, 2));
    assert!(p(VhostUserProtocolFeatures::REPLY_ACK, 3));
    assert!(p(VhostUserProtocolFeatures::MTU, 4));
    assert!(p(VhostUserProtocolFeatures::BACKEND_REQ, 5));
    assert!(p(VhostUserProtocolFeatures::CROSS_ENDIAN, 6));
    assert!(p(VhostUserProtocolFeatures::CRYPTO_SESSION, 7));
    assert!(p(VhostUserProtocolFeatures::PAGEFAULT, 8));
    assert!(p(VhostUserProtocolFeatures::CONFIG, 9));
    assert!(p(VhostUserProtocolFeatures::BACKEND_SEND_FD, 10));
    assert!(p(VhostUserProtocolFeatures::HOST_NOTIFIER, 11));
    assert!(p(VhostUserProtocolFeatures::INFLIGHT_SHMFD, 12));
    assert!(p(VhostUserProtocolFeatures::RESET_DEVICE, 13));
    assert!(p(VhostUserProtocolFeatures::INBAND_NOTIFICATIONS, 14));
    assert!(p(VhostUserProtocolFeatures::CONFIGURE_MEM_SLOTS, 15));
    assert!(p(VhostUserProtocolFeatures::STATUS, 16));
    assert!(p(VhostUserProtocolFeatures::XEN_MMAP, 17));
    assert!(p(VhostUserProtocolFeatures::SHARED_OBJECT, 18));
    assert!(p(VhostUserProtocolFeatures::DEVICE_STATE, 19));
    assert!(p(VhostUserProtocolFeatures::GET_VRING_BASE_INFLIGHT, 20));
    assert!(p(VhostUserProtocolFeatures::SHMEM, 21));
    assert!(VhostUserVringAddrFlags::VHOST_VRING_F_LOG.bits() == 1);
    assert!(VhostUserVringAddrFlags::all().bits() == 1);
    assert!(VhostUserConfigFlags::WRITABLE.bits() == 1);
    assert!(VhostUserConfigFlags::LIVE_MIGRATION.bits() == 2);
    assert!(VhostUserConfigFlags::all().bits() == 3);
    assert!(VhostUserMMapFlags::WRITABLE.bits() == 1);
    assert!(VhostUserMMapFlags::all().bits() == 1);
}

// request-code name table (spec numbering; a renumbered *pair* keeps the
// range check above happy, so every name is pinned)
#[kani::proof]
fn c01_request_code_names() {
    use FrontendReq as F;
    let t: [(F, u32); 44] = [
        (F::GET_FEATURES,1),(F::SET_FEATURES,2),(F::SET_OWNER,3),(F::RESET_OWNER,4),(F::SET_MEM_TABLE,5),
        (F::SET_LOG_BASE,6),(F::SET_LOG_FD,7),(F::SET_VRING_NUM,8),(F::SET_VRING_ADDR,9),(F::SET_VRING_BASE,10),
        (F::GET_VRING_BASE,11),(F::SET_VRING_KICK,12),(F::SET_VRING_CALL,13),(F::SET_VRING_ERR,14),
        (F::GET_PROTOCOL_FEATURES,15),(F::SET_PROTOCOL_FEATURES,16),(F::GET_QUEUE_NUM,17),(F::SET_VRING_ENABLE,18),
        (F::SEND_RARP,19),(F::NET_SET_MTU,20),(F::SET_BACKEND_REQ_FD,21),(F::IOTLB_MSG,22),(F::SET_VRING_ENDIAN,23),
        (F::GET_CONFIG,24),(F::SET_CONFIG,25),(F::CREATE_CRYPTO_SESSION,26),(F::CLOSE_CRYPTO_SESSION,27),
        (F::POSTCOPY_ADVISE,28),(F::POSTCOPY_LISTEN,29),(F::POSTCOPY_END,30),(F::GET_INFLIGHT_FD,31),
        (F::SET_INFLIGHT_FD,32),(F::GPU_SET_SOCKET,33),(F::RESET_DEVICE,34),(F::VRING_KICK,35),
        (F::GET_MAX_MEM_SLOTS,36),(F::ADD_MEM_REG,37),(F::REM_MEM_REG,38),(F::SET_STATUS,39),(F::GET_STATUS,40),
        (F::GET_SHARED_OBJECT,41),(F::SET_DEVICE_STATE_FD,42),(F::CHECK_DEVICE_STATE,43),(F::GET_SHMEM_CONFIG,44),
    ];
    let i: usize = kani::any();
    kani::assume(i < 44);
    assert!(t[i].0 as u32 == t[i].1);
    use BackendReq as B;
    let u: [(B, u32); 10] = [
        (B::IOTLB_MSG,1),(B::CONFIG_CHANGE_MSG,2),(B::VRING_HOST_NOTIFIER_MSG,3),(B::VRING_CALL,4),(B::VRING_ERR,5),
        (B::SHARED_OBJECT_ADD,6),(B::SHARED_OBJECT_REMOVE,7),(B::SHARED_OBJECT_LOOKUP,8),(B::SHMEM_MAP,9),(B::SHMEM_UNMAP,10),
    ];
    let j: usize = kani::any();
    kani::assume(j < 10);
    assert!(u[j].0 as u32 == u[j].1);
    assert!(VhostTransferStateDirection::SAVE as u32 == 0 && VhostTransferStateDirection::LOAD as u32 == 1);
    assert!(VhostTransferStatePhase::STOPPED as u32 == 0);
}

// ---------------------------------------------------------------- C01: body byte images (encode) and decode
fn ne64(b: &[u8], o: usize) -> u64 { u64::from_ne_bytes([b[o],b[o+1],b[o+2],b[o+3],b[o+4],b[o+5],b[o+6],b[o+7]]) }
fn ne32(b: &[u8], o: usize) -> u32 { u32::from_ne_bytes([b[o],b[o+1],b[o+2],b[o+3]]) }
fn ne16(b: &[u8], o: usize) -> u16 { u16::from_ne_bytes([b[o],b[o+1]]) }

#[kani::proof]
fn c01_body_bytes_fixed() {
    // constructors place the caller's values in the specified fields; the byte
    // image of the struct is those values at the specified offsets.
    let v: u64 = kani::any();
    let m = VhostUserU64::new(v);
    assert!(m.as_slice().len() == 8 && ne64(m.as_slice(), 0) == v);

    let (i, n): (u32, u32) = (kani::any(), kani::any());
    let m = VhostUserVringState::new(i, n);
    let b = m.as_slice();
    assert!(b.len() == 8 && ne32(b, 0) == i && ne32(b, 4) == n);

    let cnt: u32 = kani::any();
    let m = VhostUserMemory::new(cnt);
    let b = m.as_slice();
    assert!(b.len() == 8 && ne32(b, 0) == cnt && ne32(b, 4) == 0);

    let (g, s, u, o): (u64, u64, u64, u64) = (kani::any(), kani::any(), kani::any(), kani::any());
    let m = VhostUserMemoryRegion::new(g, s, u, o);
    let b = m.as_slice();
    assert!(b.len() == 32 && ne64(b, 0) == g && ne64(b, 8) == s && ne64(b, 16) == u && ne64(b, 24) == o);

    let m = VhostUserSingleMemoryRegion::new(g, s, u, o);
    let b = m.as_slice();
    assert!(b.len() == 40 && ne64(b, 0) == 0 && ne64(b, 8) == g && ne64(b, 16) == s && ne64(b, 24) == u && ne64(b, 32) == o);

    let (sz, off): (u64, u64) = (kani::any(), kani::any());
    let m = VhostUserLog::new(sz, off);
    let b = m.as_slice();
    assert!(b.len() == 16 && ne64(b, 0) == sz && ne64(b, 8) == off);
}

#[kani::proof]
fn c01_body_bytes_fixed2() {
    let (idx, d, u, a, l): (u32, u64, u64, u64, u64) = (kani::any(), kani::any(), kani::any(), kani::any(), kani::any());
    let lg: bool = kani::any();
    let fl = if lg { VhostUserVringAddrFlags::VHOST_VRING_F_LOG } else { VhostUserVringAddrFlags::empty() };
    let m = VhostUserVringAddr::new(idx, fl, d, u, a, l);
    let b = m.as_slice();
    assert!(b.len() == 40 && ne32(b, 0) == idx && ne32(b, 4) == (lg as u32)
        && ne64(b, 8) == d && ne64(b, 16) == u && ne64(b, 24) == a && ne64(b, 32) == l);

    let (off, sz, f): (u32, u32, u32) = (kani::any(), kani::any(), kani::any());
    kani::assume(f < 4);
    let m = VhostUserConfig::new(off, sz, VhostUserConfigFlags::from_bits(f).unwrap());
    let b = m.as_slice();
    assert!(b.len() == 12 && ne32(b, 0) == off && ne32(b, 4) == sz && ne32(b, 8) == f);

    let (ms, mo, nq, qs): (u64, u64, u16, u16) = (kani::any(), kani::any(), kani::any(), kani::any());
    let m = VhostUserInflight::new(ms, mo, nq, qs);
    let b = m.as_slice();
    assert!(b.len() == 24 && ne64(b, 0) == ms && ne64(b, 8) == mo && ne16(b, 16) == nq && ne16(b, 18) == qs);

    let dir: bool = kani::any();
    let m = VhostUserTransferDeviceState::new(
        if dir { VhostTransferStateDirection::LOAD } else { VhostTransferStateDirection::SAVE },
        VhostTransferStatePhase::STOPPED);
    let b = m.as_slice();
    assert!(b.len() == 8 && ne32(b, 0) == (dir as u32) && ne32(b, 4) == 0);
}

#[kani::proof]
fn c01_vring_addr_from_config() {
    let cfg = crate::VringConfigData {
        queue_max_size: kani::any(), queue_size: kani::any(), flags: kani::any(),
        desc_table_addr: kani::any(), used_ring_addr: kani::any(), avail_ring_addr: kani::any(),
        log_addr: kani::any(),
    };
    let idx: u32 = kani::any();
    let m = VhostUserVringAddr::from_config_data(idx, &cfg);
    let (i, f, d, u, a, l) = (m.index, m.flags, m.descriptor, m.used, m.available, m.log);
    assert!(i == idx && f == cfg.flags && d == cfg.desc_table_addr && u == cfg.used_ring_addr
        && a == cfg.avail_ring_addr);
    assert!(l == match cfg.log_addr { Some(x) => x, None => 0 });
}

#[kani::proof]
#[kani::unwind(258)]
fn c01_shmem_config_new_bounded() {
    // bounded only in the caller's slice length (<= 4); the 256-entry fill loop is exact
    let n: u32 = kani::any();
    let a: [u64; 4] = kani::any();
    let len: usize = kani::any();
    kani::assume(len <= 4);
    let m = VhostUserShMemConfig::new(n, &a[..len]);
    assert!(m.nregions == n && m.padding == 0);
    let k: usize = kani::any();
    kani::assume(k < 256);
    assert!(m.memory_sizes[k] == if k < len { a[k] } else { 0 });
}
