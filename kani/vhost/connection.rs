// Kani leaf obligations for vhost/src/vhost_user/connection.rs (child module).
// The socket primitive is replaced by a nondeterministic model (stubs below): it may accept / deliver any
// number of bytes per call (including 1), report a transient error, or reach end-of-stream at any offset.
// Harnesses whose name ends in _bounded are bounded in the stated sizes and are never counted as proved.
#![allow(unused_imports, dead_code, non_snake_case, static_mut_refs)]
use super::*;
use core::mem::size_of;

type Hdr = VhostUserMsgHeader<FrontendReq>;

fn ep() -> Endpoint<Hdr> {
    Endpoint::<Hdr>::from_stream(unsafe { UnixStream::from_raw_fd(100) })
}

fn ep_b() -> Endpoint<VhostUserMsgHeader<BackendReq>> {
    Endpoint::<VhostUserMsgHeader<BackendReq>>::from_stream(unsafe { UnixStream::from_raw_fd(100) })
}

// ------------------------------------------------------------------ fd ledger
static mut CLOSED: [i32; 8] = [-1; 8];
static mut NCLOSED: usize = 0;
fn ledger_drop(fd: &mut std::os::fd::OwnedFd) {
    unsafe {
        let raw = std::os::fd::AsRawFd::as_raw_fd(fd);
        if NCLOSED < 8 { CLOSED[NCLOSED] = raw; }
        NCLOSED += 1;
    }
}
fn closed_count(fd: i32) -> usize {
    unsafe {
        let c = |i: usize| (i < NCLOSED && CLOSED[i] == fd) as usize;
        c(0) + c(1) + c(2) + c(3) + c(4) + c(5) + c(6) + c(7)
    }
}
fn nclosed() -> usize { unsafe { NCLOSED } }

// ================================================================== send side
// ---- recorder for what send_message* hand to send_iovec_all
static mut S_NIOV: usize = 0;
static mut S_LEN: [usize; 4] = [0; 4];
static mut S_PTR: [usize; 4] = [0; 4];
static mut S_FDS: i32 = -2;      // -2: not called, -1: None, n: Some(len n)
static mut S_FD0: i32 = -1;
static mut S_CALLS: usize = 0;
static mut S_RET: usize = 0;
static mut S_FAIL: bool = false;
fn stub_send_iovec_all<H: MsgHeader>(_s: &mut Endpoint<H>, iovs: &[&[u8]], fds: Option<&[RawFd]>) -> Result<usize> {
    unsafe {
        S_CALLS += 1;
        S_NIOV = iovs.len();
        let mut i = 0;
        while i < iovs.len() && i < 4 { S_LEN[i] = iovs[i].len(); S_PTR[i] = iovs[i].as_ptr() as usize; i += 1; }
        match fds { None => S_FDS = -1, Some(f) => { S_FDS = f.len() as i32; if f.len() > 0 { S_FD0 = f[0]; } } }
        if S_FAIL { return Err(Error::SocketBroken(std::io::Error::from_raw_os_error(32))); }
        Ok(S_RET)
    }
}

// the single-sendmsg primitive must not be used directly by the message senders: a partial write would be left unresumed
static mut S_BYPASS: usize = 0;
fn stub_send_iovec_direct<H: MsgHeader>(_s: &mut Endpoint<H>, _iovs: &[&[u8]], _fds: Option<&[RawFd]>) -> Result<usize> {
    unsafe { S_BYPASS += 1; }
    Ok(kani::any())
}

// send_message: exactly one call handing over [hdr bytes, body bytes] and the caller's descriptors;
// Ok iff the primitive took header + body completely.
#[kani::proof]
#[kani::stub(Endpoint::<H>::send_iovec_all, stub_send_iovec_all)]
#[kani::stub(Endpoint::<H>::send_iovec, stub_send_iovec_direct)]
#[kani::unwind(5)]
fn c08_send_message_frame() {
    let mut e = ep();
    let hdr = Hdr::new(FrontendReq::SET_VRING_NUM, kani::any(), 8);
    let body = VhostUserVringState::new(kani::any(), kani::any());
    let with_fd: bool = kani::any();
    let fd: RawFd = kani::any();
    let fds = [fd];
    unsafe { S_RET = kani::any(); S_FAIL = kani::any(); }
    let r = e.send_message(&hdr, &body, if with_fd { Some(&fds[..]) } else { None });
    unsafe {
        assert!(S_CALLS == 1);
        assert!(S_NIOV == 2 && S_LEN[0] == 12 && S_LEN[1] == 8);
        assert!(S_PTR[0] == (&hdr as *const Hdr) as usize);      // the header itself, first
        assert!(S_PTR[1] == (&body as *const VhostUserVringState) as usize);  // then the body itself
        assert!(if with_fd { S_FDS == 1 && S_FD0 == fd } else { S_FDS == -1 });
        assert!(r.is_ok() == (!S_FAIL && S_RET == 20));
    }
    unsafe { assert!(S_BYPASS == 0); }   // every byte goes through the resuming loop
    core::mem::forget(e);
}

#[kani::proof]
#[kani::stub(Endpoint::<H>::send_iovec_all, stub_send_iovec_all)]
#[kani::stub(Endpoint::<H>::send_iovec, stub_send_iovec_direct)]
#[kani::unwind(5)]
fn c08_send_header_frame() {
    let mut e = ep();
    let hdr = Hdr::new(FrontendReq::SET_OWNER, kani::any(), 0);
    unsafe { S_RET = kani::any(); S_FAIL = kani::any(); }
    let r = e.send_header(&hdr, None);
    unsafe {
        assert!(S_CALLS == 1 && S_NIOV == 1 && S_LEN[0] == 12 && S_PTR[0] == (&hdr as *const Hdr) as usize && S_FDS == -1);
        assert!(r.is_ok() == (!S_FAIL && S_RET == 12));
    }
    unsafe { assert!(S_BYPASS == 0); }   // every byte goes through the resuming loop
    core::mem::forget(e);
}

#[kani::proof]
#[kani::stub(Endpoint::<H>::send_iovec_all, stub_send_iovec_all)]
#[kani::stub(Endpoint::<H>::send_iovec, stub_send_iovec_direct)]
#[kani::unwind(5)]
fn c08_send_message_with_payload_frame() {
    let mut e = ep();
    let hdr = Hdr::new(FrontendReq::SET_CONFIG, kani::any(), kani::any());
    let body = VhostUserConfig::new(kani::any(), kani::any(), VhostUserConfigFlags::WRITABLE);
    let buf = [0u8; 16];
    let plen: usize = kani::any();
    kani::assume(plen <= 16);
    unsafe { S_RET = kani::any(); S_FAIL = kani::any(); }
    let r = e.send_message_with_payload(&hdr, &body, &buf[..plen], None);
    unsafe {
        assert!(S_CALLS == 1);
        assert!(S_NIOV == 3 && S_LEN[0] == 12 && S_LEN[1] == 12 && S_LEN[2] == plen);
        assert!(S_PTR[0] == (&hdr as *const Hdr) as usize && S_PTR[1] == (&body as *const VhostUserConfig) as usize && S_PTR[2] == buf.as_ptr() as usize);
        assert!(S_FDS == -1);
        assert!(r.is_ok() == (!S_FAIL && S_RET == 24 + plen));
    }
    unsafe { assert!(S_BYPASS == 0); }   // every byte goes through the resuming loop
    core::mem::forget(e);
}

// over-long payloads / too many descriptors are refused before anything is handed to the socket
#[kani::proof]
#[kani::stub(Endpoint::<H>::send_iovec_all, stub_send_iovec_all)]
#[kani::stub(Endpoint::<H>::send_iovec, stub_send_iovec_direct)]
#[kani::unwind(5)]
fn c08_send_message_with_payload_limits() {
    let mut e = ep();
    let hdr = Hdr::new(FrontendReq::SET_CONFIG, 0, 0);
    let body = VhostUserConfig::new(0, 0, VhostUserConfigFlags::WRITABLE);
    static BIG: [u8; 4100] = [0u8; 4100];
    let plen: usize = kani::any();
    kani::assume(plen <= 4100);
    unsafe { S_RET = 24 + plen; S_FAIL = false; }
    let r = e.send_message_with_payload(&hdr, &body, &BIG[..plen], None);
    unsafe {
        if plen > 4096 - 12 { assert!(r.is_err() && S_CALLS == 0); } else { assert!(r.is_ok() && S_CALLS == 1); }
    }
    unsafe { assert!(S_BYPASS == 0); }   // every byte goes through the resuming loop
    core::mem::forget(e);
}

// ---- send_iovec_all against a chunking primitive (bounded: 2 iovecs, <= 4 bytes total, any chunking incl. byte-by-byte, one transient error)
static mut OUT: [u8; 8] = [0; 8];
static mut OUT_LEN: usize = 0;
static mut FD_CALLS: usize = 0;        // number of primitive calls that carried descriptors
static mut FD_AT: usize = 99;          // OUT_LEN at the (last) call that carried descriptors
static mut PRIM_CALLS: usize = 0;
fn stub_send_iovec<H: MsgHeader>(_s: &mut Endpoint<H>, iovs: &[&[u8]], fds: Option<&[RawFd]>) -> Result<usize> {
    unsafe {
        PRIM_CALLS += 1;
        if fds.is_some() { FD_CALLS += 1; FD_AT = OUT_LEN; }
        let retry: bool = kani::any();
        if retry && PRIM_CALLS < 2 { return Err(Error::SocketRetry(std::io::Error::from_raw_os_error(11))); }
        let mut total = 0;
        let mut i = 0;
        while i < iovs.len() { total += iovs[i].len(); i += 1; }
        let n: usize = kani::any();
        kani::assume(n <= total);
        // copy the first n bytes of the gather list
        let mut left = n;
        let mut k = 0;
        while k < iovs.len() && left > 0 {
            let take = if iovs[k].len() < left { iovs[k].len() } else { left };
            if OUT_LEN + take <= 8 {
                core::ptr::copy_nonoverlapping(iovs[k].as_ptr(), OUT.as_mut_ptr().add(OUT_LEN), take);
            }
            OUT_LEN += take;
            left -= take;
            k += 1;
        }
        Ok(n)
    }
}

#[kani::proof]
#[kani::stub(Endpoint::<H>::send_iovec, stub_send_iovec)]
#[kani::unwind(7)]
fn c08_send_iovec_all_bounded_thorough() {
    let mut e = ep();
    let data: [u8; 4] = kani::any();
    let a: usize = kani::any();
    kani::assume(a <= 4);
    let iovs: [&[u8]; 2] = [&data[..a], &data[a..]];
    let fd: RawFd = 7;
    let fds = [fd];
    let r = e.send_iovec_all(&iovs[..], Some(&fds[..]));
    unsafe {
        match r {
            Ok(n) => {
                // bytes accepted by the primitive are the concatenation of the iovecs: a prefix of `data`, each byte once, in order
                assert!(n == OUT_LEN && n <= 4);
                let k: usize = kani::any();
                kani::assume(k < n);
                assert!(OUT[k] == data[k]);
                // n < 6 only if the primitive reported end-of-stream (0 bytes) – then the short count is returned
                // descriptors were attached only to calls made while nothing had been sent yet
                assert!(FD_CALLS == 0 || FD_AT == 0);
            }
            Err(_) => {}
        }
    }
    core::mem::forget(e);
}

// quick-tier variant: a 2-byte message accepted one byte at a time — descriptors go out with the first byte only
static mut ONE_CALLS: usize = 0;
static mut ONE_FD_CALLS: usize = 0;
static mut ONE_FD_FIRST: bool = false;
fn stub_send_iovec_one_byte<H: MsgHeader>(_s: &mut Endpoint<H>, iovs: &[&[u8]], fds: Option<&[RawFd]>) -> Result<usize> {
    unsafe {
        if fds.is_some() { ONE_FD_CALLS += 1; if ONE_CALLS == 0 { ONE_FD_FIRST = true; } }
        ONE_CALLS += 1;
        let mut total = 0; let mut i = 0;
        while i < iovs.len() { total += iovs[i].len(); i += 1; }
        Ok(if total > 0 { 1 } else { 0 })
    }
}
#[kani::proof]
#[kani::stub(Endpoint::<H>::send_iovec, stub_send_iovec_one_byte)]
#[kani::unwind(5)]
fn c08_c01_send_iovec_all_fds_first_byte_only_bounded() {
    let mut e = ep();
    let data: [u8; 2] = kani::any();
    let iovs: [&[u8]; 1] = [&data[..]];
    let fds = [7 as RawFd];
    let r = e.send_iovec_all(&iovs[..], Some(&fds[..]));
    unsafe {
        assert!(matches!(r, Ok(2)));
        assert!(ONE_CALLS == 2);                              // two partial writes
        assert!(ONE_FD_CALLS == 1 && ONE_FD_FIRST);           // descriptors attached to the first one only
    }
    core::mem::forget(e);
}

// ================================================================== receive side
// ---- model of recv_into_iovec_all for the framing functions: delivers any n <= total bytes (arbitrary content)
static mut R_N: usize = 0;
static mut R_FILES: usize = 0;
// the request-code decoder is replaced by an arbitrary verdict (which codes exist is C20's c20_*_req_code_table obligation);
// the rest of the header validator runs for real
static mut HDR_VERDICT: bool = false;
fn stub_get_code<R: Req>(_h: &VhostUserMsgHeader<R>) -> Result<R> {
    if unsafe { HDR_VERDICT } { R::try_from(1).map_err(|_| Error::InvalidMessage) } else { Err(Error::InvalidMessage) }
}
unsafe fn stub_recv_into_iovec_all<H: MsgHeader>(_s: &mut Endpoint<H>, iovs: &mut [iovec]) -> Result<(usize, Option<Vec<File>>)> {
    // fill the header iovec (12 bytes) with arbitrary bytes; body/payload iovecs keep whatever they had
    if iovs.len() >= 1 && iovs[0].iov_len == 12 {
        let b: [u8; 12] = kani::any();
        core::ptr::copy_nonoverlapping(b.as_ptr(), iovs[0].iov_base as *mut u8, 12);
    }
    if iovs.len() >= 2 && iovs[1].iov_len == 8 {
        let b: [u8; 8] = kani::any();
        core::ptr::copy_nonoverlapping(b.as_ptr(), iovs[1].iov_base as *mut u8, 8);
    }
    let mut total = 0;
    let mut i = 0;
    while i < iovs.len() { total += iovs[i].iov_len; i += 1; }
    let n: usize = kani::any();
    kani::assume(n <= total);
    R_N = n;
    let fail: bool = kani::any();
    if fail { return Err(Error::BackendInternalError); }     // (a payload-free variant stands for any socket error: io::Error drop glue is CBMC-expensive)
    Ok((n, None))
}

// the single-recvmsg primitive must not be used directly by the message receivers: a message delivered in segments would be cut
static mut R_BYPASS: usize = 0;
unsafe fn stub_recv_into_iovec_direct<H: MsgHeader>(_s: &mut Endpoint<H>, _iovs: &mut [iovec]) -> Result<(usize, Option<Vec<File>>)> {
    R_BYPASS += 1;
    Err(Error::BackendInternalError)
}

#[kani::proof]
#[kani::stub(Endpoint::<H>::recv_into_iovec_all, stub_recv_into_iovec_all)]
#[kani::stub(Endpoint::<H>::recv_into_iovec, stub_recv_into_iovec_direct)]
#[kani::stub(VhostUserMsgHeader::<R>::get_code, stub_get_code)]
#[kani::unwind(5)]
fn c08_recv_header_classification() {
    unsafe { HDR_VERDICT = kani::any(); }
    let mut e = ep_b();
    let r = e.recv_header();
    let n = unsafe { R_N };
    match r {
        Ok((hdr, _)) => { assert!(n == 12); assert!(hdr.is_valid()); }              // complete AND valid
        Err(Error::Disconnected) => assert!(n == 0),                                   // clean close only at a boundary
        Err(Error::PartialMessage) => assert!(n > 0 && n < 12),                        // cut inside the header
        Err(Error::InvalidMessage) => assert!(n == 12),
        Err(Error::BackendInternalError) => {}
        Err(_) => assert!(false),
    }
    unsafe { assert!(R_BYPASS == 0); }   // every receive goes through the reassembly loop
    core::mem::forget(e);
}

#[kani::proof]
#[kani::stub(Endpoint::<H>::recv_into_iovec_all, stub_recv_into_iovec_all)]
#[kani::stub(Endpoint::<H>::recv_into_iovec, stub_recv_into_iovec_direct)]
#[kani::stub(VhostUserMsgHeader::<R>::get_code, stub_get_code)]
#[kani::unwind(5)]
fn c08_recv_body_classification() {
    unsafe { HDR_VERDICT = kani::any(); }
    let mut e = ep_b();
    let r = e.recv_body::<VhostUserU64>();
    let n = unsafe { R_N };
    match r {
        Ok((hdr, _body, _)) => { assert!(n == 20); assert!(hdr.is_valid()); }          // never a value from a short read
        Err(Error::PartialMessage) => assert!(n != 20),
        Err(Error::InvalidMessage) => assert!(n == 20),
        Err(Error::BackendInternalError) => {}
        Err(_) => assert!(false),
    }
    unsafe { assert!(R_BYPASS == 0); }   // every receive goes through the reassembly loop
    core::mem::forget(e);
}

#[kani::proof]
#[kani::stub(Endpoint::<H>::recv_into_iovec_all, stub_recv_into_iovec_all)]
#[kani::stub(Endpoint::<H>::recv_into_iovec, stub_recv_into_iovec_direct)]
#[kani::stub(VhostUserMsgHeader::<R>::get_code, stub_get_code)]
#[kani::unwind(5)]
fn c08_recv_payload_into_buf_classification() {
    unsafe { HDR_VERDICT = kani::any(); }
    let mut e = ep_b();
    let mut buf = [0u8; 16];
    let blen: usize = kani::any();
    kani::assume(blen <= 16);
    let r = e.recv_payload_into_buf::<VhostUserConfig>(&mut buf[..blen]);
    let n = unsafe { R_N };
    match r {
        Ok((hdr, _body, bytes, _)) => { assert!(n >= 24 && bytes == n - 24 && bytes <= blen); assert!(hdr.is_valid()); }
        Err(Error::PartialMessage) => assert!(n < 24),
        Err(Error::InvalidMessage) => assert!(n >= 24),
        Err(Error::BackendInternalError) => {}
        Err(_) => assert!(false),
    }
    unsafe { assert!(R_BYPASS == 0); }   // every receive goes through the reassembly loop
    core::mem::forget(e);
}

// ---- recv_into_iovec_all against a chunking primitive (bounded: 2 iovecs, 4 bytes, any chunking incl. byte-by-byte, one transient error)
static mut SRC: [u8; 4] = [0; 4];
static mut SRC_POS: usize = 0;
static mut RPRIM_CALLS: usize = 0;
static mut FIRST_DATA_CALL_HAD_FD: bool = false;
static mut SEEN_DATA: bool = false;
unsafe fn stub_recv_into_iovec<H: MsgHeader>(_s: &mut Endpoint<H>, iovs: &mut [iovec]) -> Result<(usize, Option<Vec<File>>)> {
    RPRIM_CALLS += 1;
    let retry: bool = kani::any();
    if retry && RPRIM_CALLS < 2 { return Err(Error::SocketRetry(std::io::Error::from_raw_os_error(11))); }
    let mut total = 0;
    let mut i = 0;
    while i < iovs.len() { total += iovs[i].iov_len; i += 1; }
    let n: usize = kani::any();
    kani::assume(n <= total && SRC_POS + n <= 4);
    let mut left = n;
    let mut k = 0;
    while k < iovs.len() && left > 0 {
        let take = if iovs[k].iov_len < left { iovs[k].iov_len } else { left };
        core::ptr::copy_nonoverlapping(SRC.as_ptr().add(SRC_POS), iovs[k].iov_base as *mut u8, take);
        SRC_POS += take;
        left -= take;
        k += 1;
    }
    // every chunk may carry a descriptor: 201 with the first data chunk, 202.. with later ones
    let with_fd: bool = kani::any();
    let files = if with_fd && n > 0 {
        let fdnum = if !SEEN_DATA { 201 } else { 202 };
        if !SEEN_DATA { FIRST_DATA_CALL_HAD_FD = true; }
        Some(vec![File::from_raw_fd(fdnum)])
    } else { None };
    if n > 0 { SEEN_DATA = true; }
    Ok((n, files))
}

#[kani::proof]
#[kani::stub(Endpoint::<H>::recv_into_iovec, stub_recv_into_iovec)]
#[kani::stub(<std::os::fd::OwnedFd as std::ops::Drop>::drop, ledger_drop)]
#[kani::unwind(7)]
fn c08_c09_recv_into_iovec_all_bounded_thorough() {
    let mut e = ep();
    unsafe { SRC = kani::any(); }
    let mut a = [0u8; 2];
    let mut b = [0u8; 2];
    let mut iovs = [
        iovec { iov_base: a.as_mut_ptr() as *mut c_void, iov_len: 2 },
        iovec { iov_base: b.as_mut_ptr() as *mut c_void, iov_len: 2 },
    ];
    let r = unsafe { e.recv_into_iovec_all(&mut iovs[..]) };
    unsafe {
        if let Ok((n, files)) = r {
            assert!(n == SRC_POS && n <= 4);
            // bytes land in order, each exactly once, whatever the segmentation
            let k: usize = kani::any();
            kani::assume(k < n);
            let got = if k < 2 { a[k] } else { b[k - 2] };
            assert!(got == SRC[k]);
            // only descriptors that came with the first data chunk are kept; later ones are closed, not leaked
            match files {
                Some(v) => { assert!(FIRST_DATA_CALL_HAD_FD && v.len() == 1 && v[0].as_raw_fd() == 201); assert!(closed_count(201) == 0); core::mem::forget(v); }
                None => assert!(!FIRST_DATA_CALL_HAD_FD),
            }
            assert!(closed_count(202) <= 4);
        }
    }
    core::mem::forget(e);
}

// quick-tier variant: two bytes delivered one at a time; the first chunk carries a descriptor, the second may carry another
static mut OB_CALLS: usize = 0;
static mut OB_SECOND_FD: bool = false;
unsafe fn stub_recv_into_iovec_one_byte<H: MsgHeader>(_s: &mut Endpoint<H>, iovs: &mut [iovec]) -> Result<(usize, Option<Vec<File>>)> {
    OB_CALLS += 1;
    *(iovs[0].iov_base as *mut u8) = OB_CALLS as u8;
    let files = if OB_CALLS == 1 { Some(vec![File::from_raw_fd(201)]) }
                else if OB_SECOND_FD { Some(vec![File::from_raw_fd(202)]) } else { None };
    Ok((1, files))
}
#[kani::proof]
#[kani::stub(Endpoint::<H>::recv_into_iovec, stub_recv_into_iovec_one_byte)]
#[kani::stub(<std::os::fd::OwnedFd as std::ops::Drop>::drop, ledger_drop)]
#[kani::unwind(5)]
fn c08_c09_c03_recv_all_keeps_first_chunk_fds_bounded() {
    let mut e = ep();
    unsafe { OB_SECOND_FD = kani::any(); }
    let mut a = [0u8; 2];
    let mut iovs = [iovec { iov_base: a.as_mut_ptr() as *mut c_void, iov_len: 2 }];
    let r = unsafe { e.recv_into_iovec_all(&mut iovs[..]) };
    match r {
        Ok((n, files)) => {
            assert!(n == 2 && a[0] == 1 && a[1] == 2);                    // same bytes whatever the segmentation
            match files {
                Some(v) => { assert!(v.len() == 1 && v[0].as_raw_fd() == 201); core::mem::forget(v); }   // the message's descriptors survive later segments
                None => assert!(false),
            }
            unsafe { assert!(closed_count(201) == 0); if OB_SECOND_FD { assert!(closed_count(202) == 1); } }   // stray later descriptors are closed, not leaked
        }
        Err(_) => assert!(false),
    }
    core::mem::forget(e);
}

// ---- recv_into_iovec on the real code with the recvmsg wrapper stubbed: each descriptor returned by the kernel is
// wrapped into exactly one File, in order (bounded: <= 3 descriptors per message; 32 is the array size)
static mut K_NFDS: usize = 0;
static mut K_FD0: RawFd = 0;
unsafe fn stub_raw_recvmsg(_fd: RawFd, iovecs: &mut [iovec], in_fds: &mut [RawFd]) -> vmm_sys_util::errno::Result<(usize, usize)> {
    assert!(in_fds.len() == 32);
    let n: usize = kani::any();
    kani::assume(n <= 3);
    K_NFDS = n;
    K_FD0 = kani::any();
    kani::assume(K_FD0 >= 0 && K_FD0 < 300);          // any descriptor number the kernel may hand out, including 0
    if n > 0 { in_fds[0] = K_FD0; }
    if n > 1 { in_fds[1] = 301; }
    if n > 2 { in_fds[2] = 302; }
    let bytes: usize = kani::any();
    kani::assume(iovecs.len() == 1 && bytes <= iovecs[0].iov_len);
    Ok((bytes, n))
}

#[kani::proof]
#[kani::stub(vmm_sys_util::sock_ctrl_msg::raw_recvmsg, stub_raw_recvmsg)]
#[kani::stub(<std::os::fd::OwnedFd as std::ops::Drop>::drop, ledger_drop)]
#[kani::unwind(6)]
fn c09_recv_into_iovec_wraps_each_fd_once_bounded() {
    let mut e = ep();
    let mut a = [0u8; 4];
    let mut iovs = [iovec { iov_base: a.as_mut_ptr() as *mut c_void, iov_len: 4 }];
    let r = unsafe { e.recv_into_iovec(&mut iovs[..]) };
    unsafe {
        if let Ok((_n, files)) = r {
            match files {
                None => assert!(K_NFDS == 0),
                Some(v) => {
                    assert!(v.len() == K_NFDS && K_NFDS >= 1);
                    assert!(v[0].as_raw_fd() == K_FD0);
                    if K_NFDS > 1 { assert!(v[1].as_raw_fd() == 301); }
                    if K_NFDS > 2 { assert!(v[2].as_raw_fd() == 302); }
                    assert!(nclosed() == 0);
                    core::mem::forget(v);
                }
            }
        }
    }
    core::mem::forget(e);
}

// ---- recv_data (used by both request servers for the message body): independent of how the stream is segmented.
// The kernel model delivers any 1..=remaining bytes per recvmsg while data is pending and 0 at end-of-stream.
// Obligation (C08): Ok((n, buf)) with n < len only at end-of-stream; buf.len() == len. (bounded: len <= 3)
static mut K_CALLS: usize = 0;
static mut K_EOF: bool = false;
static mut K_DELIVERED: usize = 0;
unsafe fn stub_raw_recvmsg_chunks(_fd: RawFd, iovecs: &mut [iovec], _in_fds: &mut [RawFd]) -> vmm_sys_util::errno::Result<(usize, usize)> {
    K_CALLS += 1;
    let mut total = 0;
    let mut i = 0;
    while i < iovecs.len() { total += iovecs[i].iov_len; i += 1; }
    let eof: bool = kani::any();
    if eof || total == 0 { K_EOF = true; return Ok((0, 0)); }
    let n: usize = kani::any();
    kani::assume(n >= 1 && n <= total);
    K_DELIVERED += n;
    Ok((n, 0))
}
#[kani::proof]
#[kani::stub(vmm_sys_util::sock_ctrl_msg::raw_recvmsg, stub_raw_recvmsg_chunks)]
#[kani::unwind(6)]
fn c08_recv_data_segmentation_bounded() {
    let mut e = ep();
    let len: usize = kani::any();
    kani::assume(len >= 1 && len <= 3);
    let r = e.recv_data(len);
    if let Ok((n, buf)) = r {
        assert!(buf.len() == len && n <= len);
        assert!(n == unsafe { K_DELIVERED });
        assert!(n == len || unsafe { K_EOF });      // a short count only when the stream ended
    }
    core::mem::forget(e);
}
