// Kani leaf obligations for vhost/src/vhost_kern/vdpa.rs (child module). Stubs/recorder: see kern/mod.rs.
#![allow(unused_imports, dead_code, non_snake_case, static_mut_refs)]
use super::*;
use crate::vhost_kern::verif_kani::*;
use crate::vhost_kern::verif_kani::uapi::*;
use crate::VhostBackend;
use std::os::unix::io::FromRawFd;
use std::sync::Arc;
use vm_memory::GuestMemoryMmap;

fn dev() -> VhostKernVdpa<Arc<GuestMemoryMmap<()>>> {
    VhostKernVdpa::with(unsafe { File::from_raw_fd(50) }, Arc::new(GuestMemoryMmap::<()>::new()), kani::any())
}
fn wb32() -> u32 { unsafe { u32::from_ne_bytes([WB[0], WB[1], WB[2], WB[3]]) } }

kstubs! { fn c19_vdpa_get_u32_ops() {
    setup(); let d = dev();
    let which: u8 = kani::any();
    kani::assume(which < 6);
    let (r, req) = match which {
        0 => (d.get_device_id(), U_VHOST_VDPA_GET_DEVICE_ID),
        1 => (d.get_config_size(), U_VHOST_VDPA_GET_CONFIG_SIZE),
        2 => (d.get_vqs_count(), U_VHOST_VDPA_GET_VQS_COUNT),
        3 => (d.get_group_num(), U_VHOST_VDPA_GET_GROUP_NUM),
        _ => (d.get_as_num(), U_VHOST_VDPA_GET_AS_NUM),
    };
    assert!(one_ioctl(req, 4) && ok_iff(&r));
    if let Ok(v) = r { assert!(v == wb32()); }
    core::mem::forget(d);
}}
kstubs! { fn c19_vdpa_status_vring_num() {
    setup(); let d = dev();
    let which: u8 = kani::any();
    if which == 0 {
        let r = d.get_status();
        assert!(one_ioctl(U_VHOST_VDPA_GET_STATUS, 1) && ok_iff(&r));
        if let Ok(v) = r { assert!(v == unsafe { WB[0] }); }
    } else if which == 1 {
        let s: u8 = kani::any();
        let r = d.set_status(s);
        assert!(one_ioctl(U_VHOST_VDPA_SET_STATUS, 1) && unsafe { ARG[0] } == s && ok_iff(&r));
    } else {
        let r = d.get_vring_num();
        assert!(one_ioctl(U_VHOST_VDPA_GET_VRING_NUM, 2) && ok_iff(&r));
        if let Ok(v) = r { assert!(v == unsafe { u16::from_ne_bytes([WB[0], WB[1]]) }); }
    }
    core::mem::forget(d);
}}
kstubs! { fn c19_vdpa_vring_enable_group_asid() {
    setup(); let d = dev();
    let which: u8 = kani::any();
    if which == 0 {
        let q: usize = kani::any(); let e: bool = kani::any();
        kani::assume(q <= u32::MAX as usize);
        let r = d.set_vring_enable(q, e);
        assert!(one_ioctl(U_VHOST_VDPA_SET_VRING_ENABLE, SZ_vhost_vring_state) && ok_iff(&r));
        assert!(arg32(OFF_vhost_vring_state_index) == q as u32 && arg32(OFF_vhost_vring_state_num) == e as u32);
    } else if which == 1 {
        let q: u32 = kani::any();
        let r = d.get_vring_group(q);
        assert!(one_ioctl(U_VHOST_VDPA_GET_VRING_GROUP, SZ_vhost_vring_state) && ok_iff(&r));
        assert!(arg32(OFF_vhost_vring_state_index) == q);
        if let Ok(v) = r { assert!(v == unsafe { u32::from_ne_bytes([WB[4], WB[5], WB[6], WB[7]]) }); }
    } else {
        let (g, a): (u32, u32) = (kani::any(), kani::any());
        let r = d.set_group_asid(g, a);
        assert!(one_ioctl(U_VHOST_VDPA_SET_GROUP_ASID, SZ_vhost_vring_state) && ok_iff(&r));
        assert!(arg32(OFF_vhost_vring_state_index) == g && arg32(OFF_vhost_vring_state_num) == a);
    }
    core::mem::forget(d);
}}
kstubs! { fn c19_vdpa_config_call_iova_suspend() {
    setup(); let d = dev();
    let which: u8 = kani::any();
    if which == 0 {
        let efd = unsafe { EventFd::from_raw_fd(77) };
        let r = d.set_config_call(&efd);
        assert!(one_ioctl(U_VHOST_VDPA_SET_CONFIG_CALL, 4) && arg32(0) == 77 && ok_iff(&r));
        core::mem::forget(efd);
    } else if which == 1 {
        let r = d.get_iova_range();
        assert!(one_ioctl(U_VHOST_VDPA_GET_IOVA_RANGE, SZ_vhost_vdpa_iova_range) && ok_iff(&r));
        if let Ok(v) = r { unsafe {
            assert!(v.first == u64::from_ne_bytes([WB[0], WB[1], WB[2], WB[3], WB[4], WB[5], WB[6], WB[7]]));
            assert!(v.last == u64::from_ne_bytes([WB[8], WB[9], WB[10], WB[11], WB[12], WB[13], WB[14], WB[15]]));
        } }
    } else {
        let r = d.suspend();
        assert!(one_ioctl(U_VHOST_VDPA_SUSPEND, 0) && ok_iff(&r));
    }
    core::mem::forget(d);
}}

// vDPA ring addresses: guest addresses handed to the kernel unchanged; invalid configurations refused before any ioctl
kstubs! { fn c19_vdpa_set_vring_addr() {
    setup(); let d = dev();
    let cfg = VringConfigData { queue_max_size: kani::any(), queue_size: kani::any(), flags: kani::any(),
        desc_table_addr: kani::any(), used_ring_addr: kani::any(), avail_ring_addr: kani::any(), log_addr: kani::any() };
    let q: usize = kani::any();
    kani::assume(q <= u32::MAX as usize);
    let qs = cfg.queue_size;
    let bad = qs == 0 || qs > cfg.queue_max_size || qs.count_ones() != 1 || (cfg.flags % 2 == 1 && cfg.log_addr.is_none());
    let r = d.set_vring_addr(q, &cfg);
    if bad {
        assert!(r.is_err() && unsafe { N_IOCTL } == 0);
    } else {
        assert!(one_ioctl(U_VHOST_SET_VRING_ADDR, SZ_vhost_vring_addr) && ok_iff(&r));
        assert!(arg32(OFF_vhost_vring_addr_index) == q as u32 && arg32(OFF_vhost_vring_addr_flags) == cfg.flags);
        assert!(arg64(OFF_vhost_vring_addr_desc_user_addr) == cfg.desc_table_addr && arg64(OFF_vhost_vring_addr_used_user_addr) == cfg.used_ring_addr
            && arg64(OFF_vhost_vring_addr_avail_user_addr) == cfg.avail_ring_addr);
        assert!(arg64(OFF_vhost_vring_addr_log_guest_addr) == if cfg.flags % 2 == 1 { cfg.log_addr.unwrap() } else { 0 });
    }
    core::mem::forget(d);
}}

// config space access (bounded: buffers of 0..=4 bytes)
// NOT REGISTERED: FamStructWrapper's allocation exhausts CBMC's memory; get_config / set_config are verified in unit `kern` (Verus)
kstubs! { #[kani::unwind(8)] fn x19_vdpa_config_bounded() {
    setup(); let d = dev();
    let n: usize = kani::any();
    kani::assume(n <= 2);
    let off: u32 = kani::any();
    unsafe { PTR_BYTES = 8 + n; }
    if kani::any() {
        let data: [u8; 4] = kani::any();
        let r = d.set_config(off, &data[..n]);
        assert!(one_ioctl(U_VHOST_VDPA_SET_CONFIG, SZ_vhost_vdpa_config) && ok_iff(&r));
        assert!(arg32(OFF_vhost_vdpa_config_off) == off && arg32(OFF_vhost_vdpa_config_len) == n as u32);
        let k: usize = kani::any(); kani::assume(k < n);
        assert!(unsafe { ARG[OFF_vhost_vdpa_config_buf + k] } == data[k]);
    } else {
        let mut out = [0u8; 4];
        let r = d.get_config(off, &mut out[..n]);
        assert!(one_ioctl(U_VHOST_VDPA_GET_CONFIG, SZ_vhost_vdpa_config) && ok_iff(&r));
        assert!(arg32(OFF_vhost_vdpa_config_off) == off && arg32(OFF_vhost_vdpa_config_len) == n as u32);
        if r.is_ok() { let k: usize = kani::any(); kani::assume(k < n); assert!(out[k] == unsafe { WB[k] }); }
    }
    core::mem::forget(d);
}}

// dma_map / dma_unmap -> IOTLB update / invalidate with the caller's values
// NOT REGISTERED: goes through libc::write (see kern/mod.rs)
kstubs! { fn x19_vdpa_dma_map_unmap() {
    setup(); unsafe { W_RET = kani::any(); }
    let d = dev();
    let (iova, size): (u64, u64) = (kani::any(), kani::any());
    let v2 = (d.get_backend_features_acked() >> U_VHOST_BACKEND_F_IOTLB_MSG_V2) % 2 == 1;
    let base = if v2 { OFF_vhost_msg_v2_iotlb } else { OFF_vhost_msg_iotlb };
    if kani::any() {
        let va: usize = kani::any(); let ro: bool = kani::any();
        let r = d.dma_map(iova, size, va as *const u8, ro);
        unsafe {
            assert!(W_CALLS == 1 && r.is_ok() == (W_RET >= 0));
            assert!(arg64(base + OFF_vhost_iotlb_msg_iova) == iova && arg64(base + OFF_vhost_iotlb_msg_size) == size && arg64(base + OFF_vhost_iotlb_msg_uaddr) == va as u64);
            assert!(ARG[base + OFF_vhost_iotlb_msg_perm] == if ro { U_VHOST_ACCESS_RO } else { U_VHOST_ACCESS_RW });
            assert!(ARG[base + OFF_vhost_iotlb_msg_type] == U_VHOST_IOTLB_UPDATE);
        }
    } else {
        let r = d.dma_unmap(iova, size);
        unsafe {
            assert!(W_CALLS == 1 && r.is_ok() == (W_RET >= 0));
            assert!(arg64(base + OFF_vhost_iotlb_msg_iova) == iova && arg64(base + OFF_vhost_iotlb_msg_size) == size);
            assert!(ARG[base + OFF_vhost_iotlb_msg_type] == U_VHOST_IOTLB_INVALIDATE);
        }
    }
    core::mem::forget(d);
}}
