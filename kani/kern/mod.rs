// Kani leaf obligations for vhost/src/vhost_kern/mod.rs (+ vdpa through its public constructor).
// The ioctl layer (vmm_sys_util::ioctl::*) and libc::write are replaced by recorders: every call logs
// (request number, size and bytes of the argument) and returns an arbitrary result; `_mut_ref` calls also
// write arbitrary bytes back into the argument ("what the kernel wrote").  The oracle is uapi_table.rs,
// generated from <linux/vhost.h> by oracle/gen_uapi.c — not the crate's vhost_binding.rs.
#![allow(unused_imports, dead_code, non_snake_case, static_mut_refs, non_upper_case_globals)]
use super::*;
use std::os::unix::io::FromRawFd;
use std::sync::Arc;
use vm_memory::GuestMemoryMmap;

#[path = "uapi_table.rs"]
pub(crate) mod uapi;
use uapi::*;

// ------------------------------------------------------------------ recorder
pub(crate) static mut N_IOCTL: usize = 0;
pub(crate) static mut LAST_REQ: u64 = 0;
pub(crate) static mut LAST_FD: i32 = -1;
pub(crate) static mut LAST_SIZE: usize = 0;
pub(crate) static mut ARG: [u8; 80] = [0; 80];
pub(crate) static mut WB: [u8; 16] = [0; 16];
pub(crate) static mut RET: i32 = 0;

pub(crate) fn stub_ioctl<F: AsRawFd>(fd: &F, req: std::os::raw::c_ulong) -> std::os::raw::c_int {
    unsafe { N_IOCTL += 1; LAST_REQ = req as u64; LAST_FD = fd.as_raw_fd(); LAST_SIZE = 0; RET }
}
pub(crate) fn stub_ioctl_with_ref<F: AsRawFd, T>(fd: &F, req: std::os::raw::c_ulong, arg: &T) -> std::os::raw::c_int {
    unsafe {
        N_IOCTL += 1; LAST_REQ = req as u64; LAST_FD = fd.as_raw_fd(); LAST_SIZE = mem::size_of::<T>();
        if mem::size_of::<T>() <= 80 { core::ptr::copy_nonoverlapping(arg as *const T as *const u8, ARG.as_mut_ptr(), mem::size_of::<T>()); }
        RET
    }
}
pub(crate) fn stub_ioctl_with_mut_ref<F: AsRawFd, T>(fd: &F, req: std::os::raw::c_ulong, arg: &mut T) -> std::os::raw::c_int {
    unsafe {
        N_IOCTL += 1; LAST_REQ = req as u64; LAST_FD = fd.as_raw_fd(); LAST_SIZE = mem::size_of::<T>();
        if mem::size_of::<T>() <= 80 { core::ptr::copy_nonoverlapping(arg as *const T as *const u8, ARG.as_mut_ptr(), mem::size_of::<T>()); }
        // the kernel writes back arbitrary bytes
        if mem::size_of::<T>() <= 16 { core::ptr::copy_nonoverlapping(WB.as_ptr(), arg as *mut T as *mut u8, mem::size_of::<T>()); }
        RET
    }
}
// for the flexible-array arguments: copies header (8 bytes) + the payload length found in the header
pub(crate) static mut PTR_BYTES: usize = 0;
pub(crate) unsafe fn stub_ioctl_with_ptr<F: AsRawFd, T>(fd: &F, req: std::os::raw::c_ulong, arg: *const T) -> std::os::raw::c_int {
    N_IOCTL += 1; LAST_REQ = req as u64; LAST_FD = fd.as_raw_fd(); LAST_SIZE = mem::size_of::<T>();
    let n = PTR_BYTES;
    if n <= 80 { core::ptr::copy_nonoverlapping(arg as *const u8, ARG.as_mut_ptr(), n); }
    RET
}
pub(crate) unsafe fn stub_ioctl_with_mut_ptr<F: AsRawFd, T>(fd: &F, req: std::os::raw::c_ulong, arg: *mut T) -> std::os::raw::c_int {
    N_IOCTL += 1; LAST_REQ = req as u64; LAST_FD = fd.as_raw_fd(); LAST_SIZE = mem::size_of::<T>();
    let n = PTR_BYTES;
    if n <= 80 { core::ptr::copy_nonoverlapping(arg as *const u8, ARG.as_mut_ptr(), n); }
    // kernel fills the flexible payload (after the 8-byte header) with arbitrary bytes
    if n >= 8 && n - 8 <= 16 { core::ptr::copy_nonoverlapping(WB.as_ptr(), (arg as *mut u8).add(8), n - 8); }
    RET
}
// ioctl_result / io_result fetch errno through std::io::Error::last_os_error (FFI, not modelled by Kani): replaced by
// the same classification without the errno fetch; the two real 5-line functions are verified in the Verus unit `kern`.
pub(crate) fn stub_ioctl_result<T>(rc: i32, res: T) -> Result<T> { if rc < 0 { Err(Error::IoctlError(std::io::Error::from_raw_os_error(5))) } else { Ok(res) } }
pub(crate) fn stub_io_result<T>(rc: isize, res: T) -> Result<T> { if rc < 0 { Err(Error::IOError(std::io::Error::from_raw_os_error(5))) } else { Ok(res) } }

pub(crate) static mut W_CALLS: usize = 0;
pub(crate) static mut W_LEN: usize = 0;
pub(crate) static mut W_FD: i32 = -1;
pub(crate) static mut W_RET: isize = 0;
pub(crate) unsafe fn stub_write(fd: std::os::raw::c_int, buf: *const c_void, count: usize) -> ssize_t {
    W_CALLS += 1; W_LEN = count; W_FD = fd;
    if count <= 80 { core::ptr::copy_nonoverlapping(buf as *const u8, ARG.as_mut_ptr(), count); }
    W_RET
}

pub(crate) fn arg32(o: usize) -> u32 { unsafe { u32::from_ne_bytes([ARG[o], ARG[o + 1], ARG[o + 2], ARG[o + 3]]) } }
pub(crate) fn arg64(o: usize) -> u64 { unsafe { u64::from_ne_bytes([ARG[o], ARG[o + 1], ARG[o + 2], ARG[o + 3], ARG[o + 4], ARG[o + 5], ARG[o + 6], ARG[o + 7]]) } }
pub(crate) fn setup() { unsafe { RET = kani::any(); WB = kani::any(); } }
pub(crate) fn one_ioctl(req: u64, size: usize) -> bool { unsafe { N_IOCTL == 1 && LAST_REQ == req && LAST_SIZE == size && LAST_FD == 50 } }
pub(crate) fn ok_iff<T>(r: &Result<T>) -> bool { unsafe { r.is_ok() == (RET >= 0) } }

// ------------------------------------------------------------------ a kernel backend over an (empty) guest memory
pub(crate) struct KB { mem: Arc<GuestMemoryMmap<()>>, acked: u64 }
impl AsRawFd for KB { fn as_raw_fd(&self) -> RawFd { 50 } }
impl VhostKernBackend for KB { type AS = Arc<GuestMemoryMmap<()>>; fn mem(&self) -> &Self::AS { &self.mem } }
impl VhostKernFeatures for KB {
    fn get_backend_features_acked(&self) -> u64 { self.acked }
    fn set_backend_features_acked(&mut self, f: u64) { self.acked = f; }
}
pub(crate) fn kb() -> KB { KB { mem: Arc::new(GuestMemoryMmap::<()>::new()), acked: kani::any() } }

macro_rules! kstubs {
    ($(#[$m:meta])* fn $name:ident() $body:block) => {
        #[kani::proof]
        #[kani::stub(vmm_sys_util::ioctl::ioctl, stub_ioctl)]
        #[kani::stub(vmm_sys_util::ioctl::ioctl_with_ref, stub_ioctl_with_ref)]
        #[kani::stub(vmm_sys_util::ioctl::ioctl_with_mut_ref, stub_ioctl_with_mut_ref)]
        #[kani::stub(vmm_sys_util::ioctl::ioctl_with_ptr, stub_ioctl_with_ptr)]
        #[kani::stub(vmm_sys_util::ioctl::ioctl_with_mut_ptr, stub_ioctl_with_mut_ptr)]
        #[kani::stub(crate::vhost_kern::ioctl_result, stub_ioctl_result)]
        #[kani::stub(crate::vhost_kern::io_result, stub_io_result)]
        #[kani::stub(libc::unix::write, stub_write)]
        $(#[$m])*
        fn $name() $body
    };
}
pub(crate) use kstubs;

// ------------------------------------------------------------------ blanket VhostBackend impl
kstubs! { fn c19_get_features() {
    setup(); let b = kb();
    let r = b.get_features();
    assert!(one_ioctl(U_VHOST_GET_FEATURES, 8) && ok_iff(&r));
    if let Ok(v) = r { assert!(v == unsafe { u64::from_ne_bytes([WB[0], WB[1], WB[2], WB[3], WB[4], WB[5], WB[6], WB[7]]) }); }   // what the kernel wrote back
    core::mem::forget(b);
}}
kstubs! { fn c19_set_features() {
    setup(); let b = kb(); let f: u64 = kani::any();
    let r = b.set_features(f);
    assert!(one_ioctl(U_VHOST_SET_FEATURES, 8) && arg64(0) == f && ok_iff(&r));
    core::mem::forget(b);
}}
kstubs! { fn c19_set_owner_reset_owner() {
    setup(); let b = kb();
    if kani::any() { let r = b.set_owner(); assert!(one_ioctl(U_VHOST_SET_OWNER, 0) && ok_iff(&r)); }
    else { let r = b.reset_owner(); assert!(one_ioctl(U_VHOST_RESET_OWNER, 0) && ok_iff(&r)); }
    core::mem::forget(b);
}}
kstubs! { fn c19_set_log_base_fd() {
    setup(); let b = kb();
    if kani::any() {
        let base: u64 = kani::any();
        let r = b.set_log_base(base, None);
        assert!(one_ioctl(U_VHOST_SET_LOG_BASE, 8) && arg64(0) == base && ok_iff(&r));
    } else {
        let fd: RawFd = kani::any();
        let r = b.set_log_fd(fd);
        assert!(one_ioctl(U_VHOST_SET_LOG_FD, 4) && arg32(0) == fd as u32 && ok_iff(&r));
    }
    core::mem::forget(b);
}}
kstubs! { fn c19_set_vring_num_base() {
    setup(); let b = kb(); let q: usize = kani::any(); let v: u16 = kani::any();
    kani::assume(q <= u32::MAX as usize);
    if kani::any() { let r = b.set_vring_num(q, v); assert!(one_ioctl(U_VHOST_SET_VRING_NUM, SZ_vhost_vring_state) && ok_iff(&r)); }
    else { let r = b.set_vring_base(q, v); assert!(one_ioctl(U_VHOST_SET_VRING_BASE, SZ_vhost_vring_state) && ok_iff(&r)); }
    assert!(arg32(OFF_vhost_vring_state_index) == q as u32 && arg32(OFF_vhost_vring_state_num) == v as u32);
    core::mem::forget(b);
}}
kstubs! { fn c19_get_vring_base() {
    setup(); let b = kb(); let q: usize = kani::any();
    kani::assume(q <= u32::MAX as usize);
    let r = b.get_vring_base(q);
    assert!(one_ioctl(U_VHOST_GET_VRING_BASE, SZ_vhost_vring_state) && ok_iff(&r));
    assert!(arg32(OFF_vhost_vring_state_index) == q as u32);
    if let Ok(v) = r { assert!(v == unsafe { u32::from_ne_bytes([WB[4], WB[5], WB[6], WB[7]]) }); }   // the full 32-bit value the kernel wrote back
    core::mem::forget(b);
}}
kstubs! { fn c19_set_vring_fds() {
    setup(); let b = kb(); let q: usize = kani::any();
    kani::assume(q <= u32::MAX as usize);
    let efd = unsafe { EventFd::from_raw_fd(77) };
    let which: u8 = kani::any();
    let (r, req) = if which == 0 { (b.set_vring_call(q, &efd), U_VHOST_SET_VRING_CALL) }
        else if which == 1 { (b.set_vring_kick(q, &efd), U_VHOST_SET_VRING_KICK) }
        else { (b.set_vring_err(q, &efd), U_VHOST_SET_VRING_ERR) };
    assert!(one_ioctl(req, SZ_vhost_vring_file) && ok_iff(&r));
    assert!(arg32(OFF_vhost_vring_file_index) == q as u32 && arg32(OFF_vhost_vring_file_fd) == 77);
    core::mem::forget(efd);
    core::mem::forget(b);
}}

// ring configurations with a zero, non-power-of-two or over-maximum size, or log flag without address: refused, no ioctl
kstubs! { fn c19_set_vring_addr_refusals() {
    setup(); let b = kb();
    let cfg = VringConfigData { queue_max_size: kani::any(), queue_size: kani::any(), flags: kani::any(),
        desc_table_addr: kani::any(), used_ring_addr: kani::any(), avail_ring_addr: kani::any(), log_addr: kani::any() };
    let qs = cfg.queue_size;
    let bad = qs == 0 || qs > cfg.queue_max_size || qs.count_ones() != 1 || (cfg.flags % 2 == 1 && cfg.log_addr.is_none());
    kani::assume(bad);
    let r = b.set_vring_addr(kani::any(), &cfg);
    assert!(r.is_err() && unsafe { N_IOCTL } == 0);
    core::mem::forget(b);
}}

kstubs! { fn c19_backend_features() {
    setup(); let mut b = kb(); let before = b.acked;
    if kani::any() {
        let r = b.get_backend_features();
        assert!(one_ioctl(U_VHOST_GET_BACKEND_FEATURES, 8) && ok_iff(&r));
        if let Ok(v) = r { assert!(v == unsafe { u64::from_ne_bytes([WB[0], WB[1], WB[2], WB[3], WB[4], WB[5], WB[6], WB[7]]) }); }
    } else {
        let f: u64 = kani::any();
        let r = b.set_backend_features(f);
        assert!(one_ioctl(U_VHOST_SET_BACKEND_FEATURES, 8) && arg64(0) == f && ok_iff(&r));
        // the acknowledged set follows what the kernel accepted, and only that
        assert!(b.acked == if r.is_ok() { f } else { before });
    }
    core::mem::forget(b);
}}

// VhostMemory (vhost_binding.rs) byte layout for concrete table sizes: header count and region i at the UAPI offsets, nothing else
// written. (The table size is concrete: `vec![..; count]` with a symbolic count exhausts CBMC's memory.)  set_mem_table itself is
// verified for every region count in the Verus unit `kern` against exactly this contract of VhostMemory.
macro_rules! vhost_memory_layout { ($name:ident, $n:expr, $unw:expr) => {
#[kani::proof]
#[kani::unwind($unw)]
fn $name() {
    let mut m = VhostMemory::new($n);
    let i: u32 = kani::any();
    let r = vhost_memory_region { guest_phys_addr: kani::any(), memory_size: kani::any(), userspace_addr: kani::any(), flags_padding: kani::any() };
    let res = m.set_region(i, &r);
    assert!(res.is_ok() == (i < $n as u32));
    let base = m.as_ptr() as *const u8;
    let rd32 = |o: usize| unsafe { core::ptr::read_unaligned(base.add(o) as *const u32) };
    let rd64 = |o: usize| unsafe { core::ptr::read_unaligned(base.add(o) as *const u64) };
    assert!(rd32(OFF_vhost_memory_nregions) == $n as u32);
    let j: usize = kani::any();
    kani::assume(j < $n as usize);
    let o = OFF_vhost_memory_regions + SZ_vhost_memory_region * j;
    if res.is_ok() && j == i as usize {
        assert!(rd64(o + OFF_vhost_memory_region_guest_phys_addr) == r.guest_phys_addr && rd64(o + OFF_vhost_memory_region_memory_size) == r.memory_size
            && rd64(o + OFF_vhost_memory_region_userspace_addr) == r.userspace_addr && rd64(o + OFF_vhost_memory_region_flags_padding) == r.flags_padding);
    } else {
        assert!(rd64(o + OFF_vhost_memory_region_guest_phys_addr) == 0 && rd64(o + OFF_vhost_memory_region_memory_size) == 0
            && rd64(o + OFF_vhost_memory_region_userspace_addr) == 0 && rd64(o + OFF_vhost_memory_region_flags_padding) == 0);
    }
    core::mem::forget(m);
}};}
vhost_memory_layout!(c19_vhost_memory_layout_1_bounded, 1u16, 7);
vhost_memory_layout!(c19_vhost_memory_layout_2_bounded, 2u16, 11);
vhost_memory_layout!(c19_vhost_memory_layout_3_bounded, 3u16, 15);

// NOT REGISTERED: exhausts CBMC's memory (> 30 GB) even for one region; replaced by unit `kern` (Verus) + the layout harnesses above
kstubs! { #[kani::unwind(4)] fn x19_set_mem_table_bounded() {
    setup(); let b = kb();
    let n: usize = kani::any();
    kani::assume(n == 1);
    let regs: [VhostUserMemoryRegionInfo; 2] = [
        VhostUserMemoryRegionInfo { guest_phys_addr: kani::any(), memory_size: kani::any(), userspace_addr: kani::any(), mmap_offset: kani::any(), mmap_handle: kani::any() },
        VhostUserMemoryRegionInfo { guest_phys_addr: kani::any(), memory_size: kani::any(), userspace_addr: kani::any(), mmap_offset: kani::any(), mmap_handle: kani::any() },
    ];
    unsafe { PTR_BYTES = OFF_vhost_memory_regions + SZ_vhost_memory_region * n; }
    let r = b.set_mem_table(&regs[..n]);
    assert!(one_ioctl(U_VHOST_SET_MEM_TABLE, SZ_vhost_memory) && ok_iff(&r));
    assert!(arg32(OFF_vhost_memory_nregions) == n as u32);
    let i: usize = kani::any();
    kani::assume(i < n);
    let o = OFF_vhost_memory_regions + SZ_vhost_memory_region * i;
    assert!(arg64(o + OFF_vhost_memory_region_guest_phys_addr) == regs[i].guest_phys_addr);
    assert!(arg64(o + OFF_vhost_memory_region_memory_size) == regs[i].memory_size);
    assert!(arg64(o + OFF_vhost_memory_region_userspace_addr) == regs[i].userspace_addr);
    assert!(arg64(o + OFF_vhost_memory_region_flags_padding) == 0);
    core::mem::forget(b);
}}
kstubs! { fn c19_set_mem_table_limits() {
    setup(); let b = kb();
    let r = b.set_mem_table(&[]);
    assert!(r.is_err() && unsafe { N_IOCTL } == 0);
    core::mem::forget(b);
}}

// ------------------------------------------------------------------ IOTLB messages: v1 / v2 by acknowledged features, and parse(write(m)) == m
fn any_iotlb() -> VhostIotlbMsg {
    let p: u8 = kani::any(); let t: u8 = kani::any();
    kani::assume(p <= 3 && t >= 1 && t <= 6);
    VhostIotlbMsg {
        iova: kani::any(), size: kani::any(), userspace_addr: kani::any(),
        perm: match p { 0 => VhostAccess::No, 1 => VhostAccess::ReadOnly, 2 => VhostAccess::WriteOnly, _ => VhostAccess::ReadWrite },
        msg_type: match t { 1 => VhostIotlbType::Miss, 2 => VhostIotlbType::Update, 3 => VhostIotlbType::Invalidate,
                            4 => VhostIotlbType::AccessFail, 5 => VhostIotlbType::BatchBegin, _ => VhostIotlbType::BatchEnd },
    }
}
// NOT REGISTERED (name does not start with cNN_): libc::write is a foreign function that Kani 0.68 can neither model nor
// stub, so the bytes handed to write(2) cannot be observed; the IOTLB write path is covered by the binding-layout table,
// the v1/v2 parse round trip and (name-level) by reading — listed under "not covered" in the C19 evidence.
kstubs! { fn x19_send_iotlb_msg_layout() {
    setup(); unsafe { W_RET = kani::any(); }
    let b = kb();
    let m = any_iotlb();
    let r = b.send_iotlb_msg(&m);
    let v2 = (b.acked >> U_VHOST_BACKEND_F_IOTLB_MSG_V2) % 2 == 1;
    unsafe {
        assert!(W_CALLS == 1 && W_FD == 50 && N_IOCTL == 0);
        let base = if v2 { assert!(W_LEN == SZ_vhost_msg_v2 && arg32(OFF_vhost_msg_v2_type) == U_VHOST_IOTLB_MSG_V2 as u32); OFF_vhost_msg_v2_iotlb }
                   else { assert!(W_LEN == SZ_vhost_msg && arg32(OFF_vhost_msg_type) == U_VHOST_IOTLB_MSG as u32); OFF_vhost_msg_iotlb };
        assert!(arg64(base + OFF_vhost_iotlb_msg_iova) == m.iova && arg64(base + OFF_vhost_iotlb_msg_size) == m.size
            && arg64(base + OFF_vhost_iotlb_msg_uaddr) == m.userspace_addr);
        assert!(ARG[base + OFF_vhost_iotlb_msg_perm] == m.perm as u8 && ARG[base + OFF_vhost_iotlb_msg_type] == m.msg_type as u8);
        assert!(r.is_ok() == (W_RET >= 0));
    }
    core::mem::forget(b);
}}
#[kani::proof]
fn c19_iotlb_parse_roundtrip() {
    let m = any_iotlb();
    let mut out = VhostIotlbMsg::default();
    if kani::any() {
        let mut w = vhost_msg { type_: VHOST_IOTLB_MSG, ..Default::default() };
        w.__bindgen_anon_1.iotlb = vhost_iotlb_msg { iova: m.iova, size: m.size, uaddr: m.userspace_addr, perm: m.perm as u8, type_: m.msg_type as u8 };
        assert!(w.parse(&mut out).is_ok());
    } else {
        let mut w = vhost_msg_v2 { type_: VHOST_IOTLB_MSG_V2, ..Default::default() };
        w.__bindgen_anon_1.iotlb = vhost_iotlb_msg { iova: m.iova, size: m.size, uaddr: m.userspace_addr, perm: m.perm as u8, type_: m.msg_type as u8 };
        assert!(w.parse(&mut out).is_ok());
    }
    assert!(out.iova == m.iova && out.size == m.size && out.userspace_addr == m.userspace_addr && out.perm == m.perm && out.msg_type == m.msg_type);
}

// ------------------------------------------------------------------ binding layouts and request numbers vs the UAPI table
#[kani::proof]
fn c19_binding_layouts() {
    use core::mem::{offset_of, size_of};
    assert!(size_of::<vhost_vring_state>() == SZ_vhost_vring_state && offset_of!(vhost_vring_state, index) == OFF_vhost_vring_state_index && offset_of!(vhost_vring_state, num) == OFF_vhost_vring_state_num);
    assert!(size_of::<vhost_vring_file>() == SZ_vhost_vring_file && offset_of!(vhost_vring_file, index) == OFF_vhost_vring_file_index && offset_of!(vhost_vring_file, fd) == OFF_vhost_vring_file_fd);
    assert!(size_of::<vhost_vring_addr>() == SZ_vhost_vring_addr && offset_of!(vhost_vring_addr, index) == OFF_vhost_vring_addr_index
        && offset_of!(vhost_vring_addr, flags) == OFF_vhost_vring_addr_flags && offset_of!(vhost_vring_addr, desc_user_addr) == OFF_vhost_vring_addr_desc_user_addr
        && offset_of!(vhost_vring_addr, used_user_addr) == OFF_vhost_vring_addr_used_user_addr && offset_of!(vhost_vring_addr, avail_user_addr) == OFF_vhost_vring_addr_avail_user_addr
        && offset_of!(vhost_vring_addr, log_guest_addr) == OFF_vhost_vring_addr_log_guest_addr);
    assert!(size_of::<vhost_memory_region>() == SZ_vhost_memory_region && offset_of!(vhost_memory_region, guest_phys_addr) == OFF_vhost_memory_region_guest_phys_addr
        && offset_of!(vhost_memory_region, memory_size) == OFF_vhost_memory_region_memory_size && offset_of!(vhost_memory_region, userspace_addr) == OFF_vhost_memory_region_userspace_addr
        && offset_of!(vhost_memory_region, flags_padding) == OFF_vhost_memory_region_flags_padding);
    assert!(size_of::<vhost_memory>() == SZ_vhost_memory && offset_of!(vhost_memory, nregions) == OFF_vhost_memory_nregions && offset_of!(vhost_memory, regions) == OFF_vhost_memory_regions);
    assert!(size_of::<vhost_iotlb_msg>() == SZ_vhost_iotlb_msg && offset_of!(vhost_iotlb_msg, iova) == OFF_vhost_iotlb_msg_iova && offset_of!(vhost_iotlb_msg, size) == OFF_vhost_iotlb_msg_size
        && offset_of!(vhost_iotlb_msg, uaddr) == OFF_vhost_iotlb_msg_uaddr && offset_of!(vhost_iotlb_msg, perm) == OFF_vhost_iotlb_msg_perm && offset_of!(vhost_iotlb_msg, type_) == OFF_vhost_iotlb_msg_type);
    assert!(size_of::<vhost_msg>() == SZ_vhost_msg && offset_of!(vhost_msg, type_) == OFF_vhost_msg_type && offset_of!(vhost_msg, __bindgen_anon_1) == OFF_vhost_msg_iotlb);
    assert!(size_of::<vhost_msg_v2>() == SZ_vhost_msg_v2 && offset_of!(vhost_msg_v2, type_) == OFF_vhost_msg_v2_type && offset_of!(vhost_msg_v2, __bindgen_anon_1) == OFF_vhost_msg_v2_iotlb);
    assert!(size_of::<vhost_vdpa_config>() == SZ_vhost_vdpa_config && offset_of!(vhost_vdpa_config, off) == OFF_vhost_vdpa_config_off && offset_of!(vhost_vdpa_config, len) == OFF_vhost_vdpa_config_len);
    assert!(size_of::<vhost_vdpa_iova_range>() == SZ_vhost_vdpa_iova_range && offset_of!(vhost_vdpa_iova_range, first) == OFF_vhost_vdpa_iova_range_first && offset_of!(vhost_vdpa_iova_range, last) == OFF_vhost_vdpa_iova_range_last);
    assert!(VHOST_IOTLB_MSG as u32 == U_VHOST_IOTLB_MSG && VHOST_IOTLB_MSG_V2 as u32 == U_VHOST_IOTLB_MSG_V2 && VHOST_BACKEND_F_IOTLB_MSG_V2 as u32 == U_VHOST_BACKEND_F_IOTLB_MSG_V2);
    assert!(VhostAccess::ReadOnly as u8 == U_VHOST_ACCESS_RO && VhostAccess::WriteOnly as u8 == U_VHOST_ACCESS_WO && VhostAccess::ReadWrite as u8 == U_VHOST_ACCESS_RW);
    assert!(VhostIotlbType::Miss as u8 == U_VHOST_IOTLB_MISS && VhostIotlbType::Update as u8 == U_VHOST_IOTLB_UPDATE && VhostIotlbType::Invalidate as u8 == U_VHOST_IOTLB_INVALIDATE
        && VhostIotlbType::AccessFail as u8 == U_VHOST_IOTLB_ACCESS_FAIL && VhostIotlbType::BatchBegin as u8 == U_VHOST_IOTLB_BATCH_BEGIN && VhostIotlbType::BatchEnd as u8 == U_VHOST_IOTLB_BATCH_END);
}
#[kani::proof]
fn c19_binding_request_numbers() {
    assert!(VHOST_GET_FEATURES() as u64 == U_VHOST_GET_FEATURES && VHOST_SET_FEATURES() as u64 == U_VHOST_SET_FEATURES);
    assert!(VHOST_SET_OWNER() as u64 == U_VHOST_SET_OWNER && VHOST_RESET_OWNER() as u64 == U_VHOST_RESET_OWNER);
    assert!(VHOST_SET_MEM_TABLE() as u64 == U_VHOST_SET_MEM_TABLE && VHOST_SET_LOG_BASE() as u64 == U_VHOST_SET_LOG_BASE && VHOST_SET_LOG_FD() as u64 == U_VHOST_SET_LOG_FD);
    assert!(VHOST_SET_VRING_NUM() as u64 == U_VHOST_SET_VRING_NUM && VHOST_SET_VRING_ADDR() as u64 == U_VHOST_SET_VRING_ADDR);
    assert!(VHOST_SET_VRING_BASE() as u64 == U_VHOST_SET_VRING_BASE && VHOST_GET_VRING_BASE() as u64 == U_VHOST_GET_VRING_BASE);
    assert!(VHOST_SET_VRING_KICK() as u64 == U_VHOST_SET_VRING_KICK && VHOST_SET_VRING_CALL() as u64 == U_VHOST_SET_VRING_CALL && VHOST_SET_VRING_ERR() as u64 == U_VHOST_SET_VRING_ERR);
    assert!(VHOST_SET_BACKEND_FEATURES() as u64 == U_VHOST_SET_BACKEND_FEATURES && VHOST_GET_BACKEND_FEATURES() as u64 == U_VHOST_GET_BACKEND_FEATURES);
    assert!(VHOST_NET_SET_BACKEND() as u64 == U_VHOST_NET_SET_BACKEND);
    assert!(VHOST_VSOCK_SET_GUEST_CID() as u64 == U_VHOST_VSOCK_SET_GUEST_CID && VHOST_VSOCK_SET_RUNNING() as u64 == U_VHOST_VSOCK_SET_RUNNING);
    assert!(VHOST_VDPA_GET_DEVICE_ID() as u64 == U_VHOST_VDPA_GET_DEVICE_ID && VHOST_VDPA_GET_STATUS() as u64 == U_VHOST_VDPA_GET_STATUS && VHOST_VDPA_SET_STATUS() as u64 == U_VHOST_VDPA_SET_STATUS);
    assert!(VHOST_VDPA_GET_CONFIG() as u64 == U_VHOST_VDPA_GET_CONFIG && VHOST_VDPA_SET_CONFIG() as u64 == U_VHOST_VDPA_SET_CONFIG);
    assert!(VHOST_VDPA_SET_VRING_ENABLE() as u64 == U_VHOST_VDPA_SET_VRING_ENABLE && VHOST_VDPA_GET_VRING_NUM() as u64 == U_VHOST_VDPA_GET_VRING_NUM);
    assert!(VHOST_VDPA_SET_CONFIG_CALL() as u64 == U_VHOST_VDPA_SET_CONFIG_CALL && VHOST_VDPA_GET_IOVA_RANGE() as u64 == U_VHOST_VDPA_GET_IOVA_RANGE);
    assert!(VHOST_VDPA_GET_CONFIG_SIZE() as u64 == U_VHOST_VDPA_GET_CONFIG_SIZE && VHOST_VDPA_GET_VQS_COUNT() as u64 == U_VHOST_VDPA_GET_VQS_COUNT);
    assert!(VHOST_VDPA_GET_GROUP_NUM() as u64 == U_VHOST_VDPA_GET_GROUP_NUM && VHOST_VDPA_GET_AS_NUM() as u64 == U_VHOST_VDPA_GET_AS_NUM);
    assert!(VHOST_VDPA_GET_VRING_GROUP() as u64 == U_VHOST_VDPA_GET_VRING_GROUP && VHOST_VDPA_SET_GROUP_ASID() as u64 == U_VHOST_VDPA_SET_GROUP_ASID);
    assert!(VHOST_VDPA_SUSPEND() as u64 == U_VHOST_VDPA_SUSPEND);
}
