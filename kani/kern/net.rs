// Kani leaf obligations for vhost/src/vhost_kern/net.rs (child module).
#![allow(unused_imports, dead_code, non_snake_case, static_mut_refs)]
use super::*;
use crate::vhost_kern::verif_kani::*;
use crate::vhost_kern::verif_kani::uapi::*;
use std::os::unix::io::FromRawFd;
use std::sync::Arc;
use vm_memory::GuestMemoryMmap;

kstubs! { fn c19_net_set_backend() {
    setup();
    let n = Net { fd: unsafe { File::from_raw_fd(50) }, mem: Arc::new(GuestMemoryMmap::<()>::new()) };
    let q: usize = kani::any();
    kani::assume(q <= u32::MAX as usize);
    let tap = unsafe { File::from_raw_fd(66) };
    let with: bool = kani::any();
    let r = n.set_backend(q, if with { Some(&tap) } else { None });
    assert!(one_ioctl(U_VHOST_NET_SET_BACKEND, SZ_vhost_vring_file) && ok_iff(&r));
    assert!(arg32(OFF_vhost_vring_file_index) == q as u32);
    assert!(arg32(OFF_vhost_vring_file_fd) == if with { 66 } else { u32::MAX });   // -1 detaches
    core::mem::forget(tap); core::mem::forget(n);
}}
