// Kani leaf obligations for vhost/src/vhost_kern/vsock.rs (child module).
#![allow(unused_imports, dead_code, non_snake_case, static_mut_refs)]
use super::*;
use crate::vhost_kern::verif_kani::*;
use crate::vhost_kern::verif_kani::uapi::*;
use std::os::unix::io::FromRawFd;
use std::sync::Arc;
use vm_memory::GuestMemoryMmap;

kstubs! { fn c19_vsock_ops() {
    setup();
    let v = Vsock { fd: unsafe { File::from_raw_fd(50) }, mem: Arc::new(GuestMemoryMmap::<()>::new()) };
    let which: u8 = kani::any();
    if which == 0 {
        let cid: u64 = kani::any();
        let r = v.set_guest_cid(cid);
        assert!(one_ioctl(U_VHOST_VSOCK_SET_GUEST_CID, 8) && arg64(0) == cid && ok_iff(&r));
    } else if which == 1 {
        let r = v.start();
        assert!(one_ioctl(U_VHOST_VSOCK_SET_RUNNING, 4) && arg32(0) == 1 && ok_iff(&r));
    } else {
        let r = v.stop();
        assert!(one_ioctl(U_VHOST_VSOCK_SET_RUNNING, 4) && arg32(0) == 0 && ok_iff(&r));
    }
    core::mem::forget(v);
}}
