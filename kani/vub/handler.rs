// Kani obligations for vhost-user-backend/src/handler.rs (child module): the daemon-side request handler on the REAL
// VringMutex / VringState / virtio-queue Queue code, with a recording backend and a recording epoll.
#![allow(unused_imports, dead_code, non_snake_case, static_mut_refs)]
use super::*;
use crate::event_loop::verif_kani::mk_epoll_handler;
use crate::vring::verif_kani::KVring;
use std::os::fd::{FromRawFd, RawFd};
use std::sync::atomic::{AtomicBool, AtomicU64, AtomicUsize, Ordering};
use vm_memory::GuestMemoryAtomic;
use vmm_sys_util::epoll::{ControlOperation, Epoll, EpollEvent};

// ------------------------------------------------------------------ recording epoll (A-EPOLL: level-triggered). Closing the daemon's
// descriptor does NOT remove the registration: the eventfd arrived over SCM_RIGHTS, the frontend still holds the open file
// description, so the epoll entry survives the close and has to be removed explicitly.
pub(crate) const NFD: usize = 4;                 // descriptors 200..204 are tracked
pub(crate) static mut REG: [bool; NFD] = [false; NFD];
pub(crate) static mut REG_DATA: [u64; NFD] = [0; NFD];
pub(crate) static mut REG_EP: [RawFd; NFD] = [0; NFD];
pub(crate) static mut CTL_CALLS: usize = 0;
pub(crate) fn stub_epoll_ctl(ep: &Epoll, op: ControlOperation, fd: RawFd, ev: EpollEvent) -> std::io::Result<()> {
    unsafe {
        CTL_CALLS += 1;
        let epfd = *(ep as *const Epoll as *const RawFd);
        if fd < 200 || fd >= 200 + NFD as i32 { return Ok(()); }
        let k = (fd - 200) as usize;
        match op {
            ControlOperation::Add => {
                if REG[k] { return Err(std::io::Error::from_raw_os_error(17)); }      // EEXIST
                REG[k] = true; REG_DATA[k] = ev.data(); REG_EP[k] = epfd; Ok(())
            }
            ControlOperation::Delete => {
                if !REG[k] { return Err(std::io::Error::from_raw_os_error(2)); }      // ENOENT
                REG[k] = false; Ok(())
            }
            _ => Ok(()),
        }
    }
}
pub(crate) static mut NCLOSED: usize = 0;
pub(crate) static mut CLOSED_LAST: RawFd = -1;
pub(crate) fn ledger_drop(fd: &mut std::os::fd::OwnedFd) {
    unsafe {
        let raw = std::os::fd::AsRawFd::as_raw_fd(fd);
        NCLOSED += 1; CLOSED_LAST = raw;
    }
}

// ------------------------------------------------------------------ recording backend
pub(crate) struct KB {
    pub nq: usize, pub maxq: usize, pub feats: u64, pub masks: Vec<u64>,
    pub acked: AtomicU64, pub acked_calls: AtomicUsize, pub evidx: AtomicU64, pub evidx_calls: AtomicUsize,
    pub reset_calls: AtomicUsize, pub upd_calls: AtomicUsize, pub upd_fail: AtomicBool,
    pub he_calls: AtomicUsize, pub he_event: AtomicU64, pub he_thread: AtomicUsize, pub he_nvrings: AtomicUsize,
}
impl KB {
    pub fn new(nq: usize, maxq: usize, feats: u64, masks: Vec<u64>) -> KB {
        KB { nq, maxq, feats, masks, acked: AtomicU64::new(0), acked_calls: AtomicUsize::new(0), evidx: AtomicU64::new(9), evidx_calls: AtomicUsize::new(0),
             reset_calls: AtomicUsize::new(0), upd_calls: AtomicUsize::new(0), upd_fail: AtomicBool::new(false),
             he_calls: AtomicUsize::new(0), he_event: AtomicU64::new(0), he_thread: AtomicUsize::new(0), he_nvrings: AtomicUsize::new(0) }
    }
}
impl VhostUserBackend for KB {
    type Bitmap = ();
    type Vring = KVring;
    fn num_queues(&self) -> usize { self.nq }
    fn max_queue_size(&self) -> usize { self.maxq }
    fn features(&self) -> u64 { self.feats }
    fn acked_features(&self, f: u64) { self.acked.store(f, Ordering::Relaxed); self.acked_calls.fetch_add(1, Ordering::Relaxed); }
    fn protocol_features(&self) -> VhostUserProtocolFeatures { VhostUserProtocolFeatures::all() }
    fn reset_device(&self) { self.reset_calls.fetch_add(1, Ordering::Relaxed); }
    fn set_event_idx(&self, e: bool) { self.evidx.store(e as u64, Ordering::Relaxed); self.evidx_calls.fetch_add(1, Ordering::Relaxed); }
    fn update_memory(&self, _mem: GM<()>) -> std::io::Result<()> {
        self.upd_calls.fetch_add(1, Ordering::Relaxed);
        if self.upd_fail.load(Ordering::Relaxed) { Err(std::io::Error::from_raw_os_error(12)) } else { Ok(()) }
    }
    fn queues_per_thread(&self) -> Vec<u64> { self.masks.clone() }
    fn handle_event(&self, device_event: u16, _evset: EventSet, vrings: &[Self::Vring], thread_id: usize) -> std::io::Result<()> {
        self.he_calls.fetch_add(1, Ordering::Relaxed); self.he_event.store(device_event as u64, Ordering::Relaxed);
        self.he_thread.store(thread_id, Ordering::Relaxed); self.he_nvrings.store(vrings.len(), Ordering::Relaxed);
        Ok(())
    }
}

pub(crate) type H = VhostUserHandler<Arc<KB>>;

// one worker thread (mask = all queues), `nq` rings; built like VhostUserHandler::new does, minus the thread spawn
pub(crate) fn mk_handler(kb: Arc<KB>, nq: usize) -> H {
    let mem: GM<()> = GuestMemoryAtomic::new(GuestMemoryMmap::<()>::new());
    let mut vrings = Vec::new();
    let mut i = 0;
    while i < nq { vrings.push(KVring::make(mem.clone(), kb.maxq as u16)); i += 1; }
    let masks = kb.masks.clone();
    let mut handlers = Vec::new();
    let mut t = 0;
    while t < masks.len() {
        let mut tv = Vec::new();
        let mut q = 0;
        while q < nq { if (masks[t] >> q) & 1 == 1 { tv.push(vrings[q].clone()); } q += 1; }
        handlers.push(Arc::new(mk_epoll_handler(kb.clone(), tv, t, 40 + t as RawFd, None)));
        t += 1;
    }
    VhostUserHandler {
        backend: kb.clone(), handlers, owned: false, features_acked: false, acked_features: 0, acked_protocol_features: 0,
        num_queues: nq, max_queue_size: kb.maxq, queues_per_thread: masks, mappings: Vec::new(), atomic_mem: mem, vrings,
        worker_threads: Vec::new(),
    }
}

macro_rules! hstubs {
    ($(#[$m:meta])* fn $name:ident() $body:block) => {
        #[kani::proof]
        #[kani::stub(vmm_sys_util::epoll::Epoll::ctl, stub_epoll_ctl)]
        #[kani::stub(<std::os::fd::OwnedFd as std::ops::Drop>::drop, ledger_drop)]
        $(#[$m])*
        fn $name() $body
    };
}

fn reg_count() -> usize { unsafe { REG[0] as usize + REG[1] as usize + REG[2] as usize + REG[3] as usize } }

// puts ring 0 of a 1-ring / 1-thread daemon into an arbitrary state that satisfies the registration invariant
//   reg_inv:  kick == Some(fd)  ==>  (fd registered on the owning thread with the ring's rank  <=>  ready && enabled)
//             and nothing else is registered
fn arbitrary_ring_state(h: &H) -> (bool, bool, bool) {
    let (ready, enabled, has_kick): (bool, bool, bool) = (kani::any(), kani::any(), kani::any());
    let v = &h.vrings[0];
    v.set_queue_ready(ready);
    v.set_enabled(enabled);
    if has_kick { v.set_kick(Some(unsafe { File::from_raw_fd(200) })); }
    unsafe {
        REG = [false; NFD]; NCLOSED = 0;
        if has_kick && ready && enabled { REG[0] = true; REG_DATA[0] = 0; REG_EP[0] = 40; }
    }
    (ready, enabled, has_kick)
}
fn check_reg_inv(h: &H) {
    let v = &h.vrings[0];
    let want = v.ready() && v.enabled();
    unsafe {
        match v.kick_fd() {
            Some(fd) => {
                let k = (fd - 200) as usize;
                assert!(REG[k] == want);                       // registered iff started and enabled
                if want { assert!(REG_DATA[k] == 0 && REG_EP[k] == 40); }   // ... on the owning worker, with the ring's rank as event id
            }
            None => {}
        }
    }
}

// ------------------------------------------------------------------ C11: every control message preserves reg_inv and follows the transition table
hstubs! { #[kani::unwind(4)] fn c11_set_vring_enable_step() {
    let kb = Arc::new(KB::new(1, 256, u64::MAX, vec![1]));
    let mut h = mk_handler(kb.clone(), 1);
    let (ready, _en, has_kick) = arbitrary_ring_state(&h);
    h.acked_features = 1 << 30;
    let en: bool = kani::any();
    let r = h.set_vring_enable(0, en);
    assert!(r.is_ok());
    assert!(h.vrings[0].enabled() == en && h.vrings[0].ready() == ready && h.vrings[0].kick_fd().is_some() == has_kick);
    if !has_kick { assert!(reg_count() == 0); }
    check_reg_inv(&h);
    core::mem::forget(h); core::mem::forget(kb);
}}
hstubs! { #[kani::unwind(4)] fn c11_set_vring_kick_step() {
    let kb = Arc::new(KB::new(1, 256, u64::MAX, vec![1]));
    let mut h = mk_handler(kb.clone(), 1);
    let (ready, en, _has_kick) = arbitrary_ring_state(&h);
    let with: bool = kani::any();
    let r = h.set_vring_kick(0, if with { Some(unsafe { File::from_raw_fd(201) }) } else { None });
    assert!(r.is_ok());
    // receipt of a kick descriptor starts the ring; the enabled flag is untouched
    assert!(h.vrings[0].enabled() == en);
    if with { assert!(h.vrings[0].kick_fd() == Some(201) && h.vrings[0].ready()); }
    else { assert!(h.vrings[0].kick_fd().is_none() && h.vrings[0].ready() == ready); }
    // also for a descriptor installed while the ring was already started: kicks on the CURRENT descriptor are dispatched iff started && enabled
    check_reg_inv(&h);
    core::mem::forget(h); core::mem::forget(kb);
}}
hstubs! { #[kani::unwind(4)] fn c11_set_vring_call_step() {
    let kb = Arc::new(KB::new(1, 256, u64::MAX, vec![1]));
    let mut h = mk_handler(kb.clone(), 1);
    let (_ready, en, has_kick) = arbitrary_ring_state(&h);
    if kani::any() { h.vrings[0].set_call(Some(unsafe { File::from_raw_fd(203) })); }     // a call descriptor installed by an earlier message
    let with: bool = kani::any();
    let r = h.set_vring_call(0, if with { Some(unsafe { File::from_raw_fd(202) }) } else { None });
    assert!(r.is_ok());
    assert!(h.vrings[0].enabled() == en && h.vrings[0].kick_fd().is_some() == has_kick);
    assert!(h.vrings[0].call_fd() == if with { Some(202) } else { None });
    if !has_kick { assert!(reg_count() == 0); }
    check_reg_inv(&h);
    core::mem::forget(h); core::mem::forget(kb);
}}
hstubs! { #[kani::unwind(4)] fn c11_c14_get_vring_base_step() {
    let kb = Arc::new(KB::new(1, 256, u64::MAX, vec![1]));
    let mut h = mk_handler(kb.clone(), 1);
    let (_ready, en, _has_kick) = arbitrary_ring_state(&h);
    let na: u16 = kani::any();
    h.vrings[0].set_queue_next_avail(na);
    if kani::any() { h.vrings[0].set_call(Some(unsafe { File::from_raw_fd(202) })); }
    let r = h.get_vring_base(0);
    match r {
        Ok(st) => { let (i, n) = (st.index, st.num); assert!(i == 0 && n == na as u32); }     // next-available index, unchanged
        Err(_) => assert!(false),
    }
    // stopped: not ready, kick and call descriptors dropped, nothing registered any more
    assert!(!h.vrings[0].ready() && h.vrings[0].kick_fd().is_none() && h.vrings[0].call_fd().is_none() && h.vrings[0].enabled() == en);
    assert!(reg_count() == 0);      // the stopped ring's kick descriptor left the epoll set (it was unregistered before being dropped)
    check_reg_inv(&h);
    core::mem::forget(h); core::mem::forget(kb);
}}
hstubs! { #[kani::unwind(4)] fn c11_reset_device_step() {
    let kb = Arc::new(KB::new(1, 256, u64::MAX, vec![1]));
    let mut h = mk_handler(kb.clone(), 1);
    let (ready, _en, has_kick) = arbitrary_ring_state(&h);
    let r = h.reset_device();
    assert!(r.is_ok());
    assert!(!h.vrings[0].enabled() && h.vrings[0].ready() == ready && h.vrings[0].kick_fd().is_some() == has_kick);
    assert!(kb.reset_calls.load(Ordering::Relaxed) == 1);
    if !has_kick { assert!(reg_count() == 0); }
    check_reg_inv(&h);
    core::mem::forget(h); core::mem::forget(kb);
}}
hstubs! { #[kani::unwind(4)] fn c11_c14_set_features_step() {
    let offered: u64 = kani::any();
    let kb = Arc::new(KB::new(1, 256, offered, vec![1]));
    let mut h = mk_handler(kb.clone(), 1);
    let (ready, en, has_kick) = arbitrary_ring_state(&h);
    // a STEP of the state machine: whatever earlier SET_OWNER / SET_FEATURES / SET_PROTOCOL_FEATURES left in the handler itself (seed
    // C11-14: the enable-all-rings branch taken only on the FIRST SET_FEATURES since the last reset)
    let (owned0, acked0, fa0, pf0): (bool, bool, u64, u64) = (kani::any(), kani::any(), kani::any(), kani::any());
    h.owned = owned0; h.features_acked = acked0; h.acked_features = fa0; h.acked_protocol_features = pf0;
    h.vrings[0].set_queue_event_idx(kani::any());      // whatever an earlier SET_FEATURES left behind
    let f: u64 = kani::any();
    let r = h.set_features(f);
    if f & !offered != 0 {
        // only subsets of the offered features are accepted; nothing reaches the queues or the backend otherwise
        assert!(r.is_err() && kb.acked_calls.load(Ordering::Relaxed) == 0 && kb.evidx_calls.load(Ordering::Relaxed) == 0);
        assert!(h.vrings[0].enabled() == en);
        assert!(h.features_acked == acked0 && h.acked_features == fa0);        // a refused SET_FEATURES leaves the negotiation state alone
    } else {
        assert!(r.is_ok());
        assert!(h.features_acked && h.acked_features == f);                    // the accepted set is what later feature checks see
        // without VHOST_USER_F_PROTOCOL_FEATURES every ring is enabled, with it `enabled` is left alone
        assert!(h.vrings[0].enabled() == if (f >> 30) & 1 == 0 { true } else { en });
        let ev = (f >> 29) & 1 == 1;
        assert!(h.vrings[0].queue().event_idx_enabled() == ev);               // EVENT_IDX reaches the queue ...
        assert!(kb.evidx_calls.load(Ordering::Relaxed) == 1 && kb.evidx.load(Ordering::Relaxed) == ev as u64);   // ... and the backend
        assert!(kb.acked_calls.load(Ordering::Relaxed) == 1 && kb.acked.load(Ordering::Relaxed) == f);        // exactly the accepted bits
    }
    assert!(h.vrings[0].ready() == ready && h.vrings[0].kick_fd().is_some() == has_kick);
    assert!(h.owned == owned0 && h.acked_protocol_features == pf0);            // frame: ownership and protocol features are not this message's business
    if !has_kick { assert!(reg_count() == 0); }
    check_reg_inv(&h);
    core::mem::forget(h); core::mem::forget(kb);
}}


// ------------------------------------------------------------------ C11 on TWO rings served by one worker (mask 0b11): a per-ring message changes the
// addressed ring only (state and registration of the other ring untouched), SET_FEATURES / RESET_DEVICE reach EVERY ring, and the
// registration invariant holds for both rings with each ring's own rank (0 / 1) as event id.  Kick descriptors: ring 0 -> 200, ring 1 -> 203.
fn ring_fd(i: usize) -> RawFd { if i == 0 { 200 } else { 203 } }
fn arbitrary_two_ring_state(h: &H) -> [(bool, bool, bool); 2] {
    let mut st = [(false, false, false); 2];
    unsafe { REG = [false; NFD]; NCLOSED = 0; }
    let mut i = 0;
    while i < 2 {
        let (ready, enabled, has_kick): (bool, bool, bool) = (kani::any(), kani::any(), kani::any());
        let v = &h.vrings[i];
        v.set_queue_ready(ready);
        v.set_enabled(enabled);
        if has_kick { v.set_kick(Some(unsafe { File::from_raw_fd(ring_fd(i)) })); }
        unsafe { if has_kick && ready && enabled { let k = (ring_fd(i) - 200) as usize; REG[k] = true; REG_DATA[k] = i as u64; REG_EP[k] = 40; } }
        st[i] = (ready, enabled, has_kick);
        i += 1;
    }
    st
}
fn check_reg_inv_ring(h: &H, i: usize) {
    let v = &h.vrings[i];
    let want = v.ready() && v.enabled();
    unsafe {
        if let Some(fd) = v.kick_fd() {
            let k = (fd - 200) as usize;
            assert!(REG[k] == want);
            if want { assert!(REG_DATA[k] == i as u64 && REG_EP[k] == 40); }    // the ring's OWN rank on the owning worker
        }
    }
}
fn other_ring_untouched(h: &H, o: usize, st: &[(bool, bool, bool); 2], reg_before: bool) {
    let v = &h.vrings[o];
    assert!(v.ready() == st[o].0 && v.enabled() == st[o].1 && v.kick_fd() == if st[o].2 { Some(ring_fd(o)) } else { None });
    unsafe { assert!(REG[(ring_fd(o) - 200) as usize] == reg_before); }
}
macro_rules! two_ring_harness {
    ($name:ident, |$h:ident, $t:ident, $st:ident| $op:block) => {
        hstubs! { #[kani::unwind(4)] fn $name() {
            let kb = Arc::new(KB::new(2, 256, u64::MAX, vec![3]));
            let mut $h = mk_handler(kb.clone(), 2);
            let $st = arbitrary_two_ring_state(&$h);
            $h.acked_features = 1 << 30;
            let $t: usize = if kani::any() { 0 } else { 1 };
            let o = 1 - $t;
            let reg_o = unsafe { REG[(ring_fd(o) - 200) as usize] };
            $op;
            other_ring_untouched(&$h, o, &$st, reg_o);
            check_reg_inv_ring(&$h, 0);
            check_reg_inv_ring(&$h, 1);
            core::mem::forget($h); core::mem::forget(kb);
        }}
    };
}
two_ring_harness!(c11_two_rings_set_vring_enable_thorough, |h, t, st| {
    let en: bool = kani::any();
    assert!(h.set_vring_enable(t as u32, en).is_ok());
    assert!(h.vrings[t].enabled() == en && h.vrings[t].ready() == st[t].0);
});
two_ring_harness!(c11_two_rings_set_vring_kick_thorough, |h, t, st| {
    assert!(h.set_vring_kick(t as u8, Some(unsafe { File::from_raw_fd(201) })).is_ok());
    assert!(h.vrings[t].kick_fd() == Some(201) && h.vrings[t].ready() && h.vrings[t].enabled() == st[t].1);
});
two_ring_harness!(c11_two_rings_get_vring_base_thorough, |h, t, st| {
    assert!(h.get_vring_base(t as u32).is_ok());
    assert!(!h.vrings[t].ready() && h.vrings[t].kick_fd().is_none() && h.vrings[t].enabled() == st[t].1);
    unsafe { assert!(!REG[(ring_fd(t) - 200) as usize]); }
});
hstubs! { #[kani::unwind(4)] fn c11_two_rings_set_features_reset_device_thorough() {
    let kb = Arc::new(KB::new(2, 256, u64::MAX, vec![3]));
    let mut h = mk_handler(kb.clone(), 2);
    let st = arbitrary_two_ring_state(&h);
    if kani::any() {
        h.vrings[0].set_queue_event_idx(kani::any()); h.vrings[1].set_queue_event_idx(kani::any());   // left behind by an earlier SET_FEATURES
        let f: u64 = kani::any();
        assert!(h.set_features(f).is_ok());
        let mut i = 0;
        while i < 2 {
            // without VHOST_USER_F_PROTOCOL_FEATURES EVERY ring is enabled, with it no ring's flag moves; EVENT_IDX reaches every queue
            assert!(h.vrings[i].enabled() == if (f >> 30) & 1 == 0 { true } else { st[i].1 });
            assert!(h.vrings[i].queue().event_idx_enabled() == ((f >> 29) & 1 == 1));
            i += 1;
        }
    } else {
        assert!(h.reset_device().is_ok());
        assert!(!h.vrings[0].enabled() && !h.vrings[1].enabled());      // EVERY ring is disabled
    }
    let mut i = 0;
    while i < 2 {
        assert!(h.vrings[i].ready() == st[i].0 && h.vrings[i].kick_fd() == if st[i].2 { Some(ring_fd(i)) } else { None });
        check_reg_inv_ring(&h, i);
        i += 1;
    }
    core::mem::forget(h); core::mem::forget(kb);
}}

// ------------------------------------------------------------------ C14: ring configuration reaches the queue unchanged; out-of-range index rejected
hstubs! { #[kani::unwind(4)] fn c14_set_vring_num_base() {
    let maxq: u16 = kani::any();
    kani::assume(maxq >= 1 && maxq <= 1024 && maxq.count_ones() == 1);
    let kb = Arc::new(KB::new(1, maxq as usize, u64::MAX, vec![1]));
    let mut h = mk_handler(kb.clone(), 1);
    let idx: u32 = kani::any();
    let v: u32 = kani::any();
    if kani::any() {
        let r = h.set_vring_num(idx, v);
        if idx >= 1 || v == 0 || v > maxq as u32 { assert!(r.is_err()); assert!(h.vrings[0].queue().size() == maxq); }
        else { assert!(r.is_ok()); if v.count_ones() == 1 { assert!(h.vrings[0].queue().size() as u32 == v); } }
    } else {
        let r = h.set_vring_base(idx, v);
        if idx >= 1 { assert!(r.is_err()); } else { assert!(r.is_ok() && h.vrings[0].queue().next_avail() == v as u16); }
    }
    core::mem::forget(h); core::mem::forget(kb);
}}
// an out-of-range ring index is rejected by every per-ring message, with no effect (set_vring_addr: Verus unit `misc`)
macro_rules! index_range {
    ($name:ident, |$h:ident, $idx:ident| $call:expr) => {
        hstubs! { #[kani::unwind(4)] fn $name() {
            let kb = Arc::new(KB::new(1, 256, u64::MAX, vec![1]));
            let mut $h = mk_handler(kb.clone(), 1);
            $h.acked_features = 1 << 30;
            let $idx: u32 = kani::any();
            kani::assume($idx >= 1 && $idx < 256);
            unsafe { REG = [false; NFD]; CTL_CALLS = 0; }
            let bad: bool = $call;
            assert!(bad);
            assert!(reg_count() == 0 && unsafe { CTL_CALLS } == 0);
            assert!(!$h.vrings[0].enabled() && !$h.vrings[0].ready() && $h.vrings[0].kick_fd().is_none());
            core::mem::forget($h); core::mem::forget(kb);
        }}
    };
}
index_range!(c14_index_range_num, |h, idx| h.set_vring_num(idx, 1).is_err());
index_range!(c14_index_range_base, |h, idx| h.set_vring_base(idx, 0).is_err());
index_range!(c14_index_range_get_base, |h, idx| h.get_vring_base(idx).is_err());
index_range!(c14_index_range_enable, |h, idx| h.set_vring_enable(idx, true).is_err());
index_range!(c14_index_range_kick, |h, idx| h.set_vring_kick(idx as u8, None).is_err());
index_range!(c14_index_range_call, |h, idx| h.set_vring_call(idx as u8, None).is_err());
index_range!(c14_index_range_err, |h, idx| h.set_vring_err(idx as u8, None).is_err());

pub(crate) static mut USED_IDX: u16 = 0;
pub(crate) static mut USED_IDX_FAIL: bool = false;
fn stub_queue_used_idx<M: vm_memory::GuestAddressSpace>(_s: &crate::vring::VringState<M>) -> Result<u16, VirtQueError> {
    unsafe { if USED_IDX_FAIL { Err(VirtQueError::InvalidIndirectDescriptor) } else { Ok(USED_IDX) } }
}
#[kani::proof]
#[kani::stub(vmm_sys_util::epoll::Epoll::ctl, stub_epoll_ctl)]
#[kani::stub(<std::os::fd::OwnedFd as std::ops::Drop>::drop, ledger_drop)]
#[kani::stub(crate::vring::VringState::queue_used_idx, stub_queue_used_idx)]
#[kani::unwind(4)]
fn x14_set_vring_addr() {   // NOT REGISTERED: exhausts memory in CBMC (io::Error::other / dyn Error glue); see Verus unit `misc` (set_vring_addr routing)
    // the used index "currently in guest memory" is modelled by the stubbed VringState::queue_used_idx (guest memory itself is vm-memory's)
    let kb = Arc::new(KB::new(1, 256, u64::MAX, vec![1]));
    let mut h = mk_handler(kb.clone(), 1);
    // one fixed mapping (the translation itself is verified for ALL mapping tables in the Verus unit `misc`, vmm_va_to_gpa);
    // here: each translated address lands in its own queue slot, and next_used is taken from guest memory
    let m = AddrMapping { vmm_addr: 0x7f00_0000_0000, size: 0x20_0000, gpa_base: 0x4000_0000 };
    let (va, sz, gpa) = (m.vmm_addr, m.size, m.gpa_base);
    let with_map: bool = kani::any();
    if with_map { h.mappings.push(m); }
    unsafe { USED_IDX = kani::any(); USED_IDX_FAIL = kani::any(); }
    let (d, u, a): (u64, u64, u64) = (kani::any(), kani::any(), kani::any());
    let r = h.set_vring_addr(0, VhostUserVringAddrFlags::empty(), d, u, a, 0);
    let inside = |x: u64| x >= va && x - va < sz;
    let tr = |x: u64| gpa + (x - va);
    if r.is_ok() {
        assert!(with_map && inside(d) && inside(u) && inside(a));
        let q = h.vrings[0].queue();
        assert!(q.desc_table() == tr(d) && q.avail_ring() == tr(a) && q.used_ring() == tr(u));     // translated guest addresses, each in its own slot
        assert!(q.next_used() == unsafe { USED_IDX });                                             // next-used = used index currently in guest memory
    } else if with_map && inside(d) && inside(u) && inside(a) && tr(d) % 16 == 0 && tr(a) % 2 == 0 && tr(u) % 4 == 0 {
        assert!(unsafe { USED_IDX_FAIL });                                                           // only a failing guest-memory read refuses well-formed addresses
    }
    core::mem::forget(h); core::mem::forget(kb);
}

// ------------------------------------------------------------------ C17: owning worker and event id (rank) — bounded: 3 queues, 2 workers, masks < 8
macro_rules! rank_harness {
    ($name:ident, $q:expr) => {
hstubs! { #[kani::unwind(5)] fn $name() {
    let (m0, m1): (u64, u64) = (kani::any(), kani::any());
    kani::assume(m0 < 8 && m1 < 8);
    let kb = Arc::new(KB::new(3, 256, u64::MAX, vec![m0, m1]));
    let mut h = mk_handler(kb.clone(), 3);
    let q: u8 = $q;
    let v = &h.vrings[q as usize];
    v.set_queue_ready(true); v.set_enabled(true);
    v.set_kick(Some(unsafe { File::from_raw_fd(200) }));
    unsafe { REG = [false; NFD]; }
    let r = h.update_vring_registration(&h.vrings[q as usize], q);
    assert!(r.is_ok());
    let in0 = (m0 >> q) & 1 == 1; let in1 = (m1 >> q) & 1 == 1;
    unsafe {
        if !in0 && !in1 { assert!(!REG[0]); }
        else {
            let (owner, mask) = if in0 { (40, m0) } else { (41, m1) };           // first worker whose mask contains q, exactly one registration
            assert!(REG[0] && REG_EP[0] == owner && reg_count() == 1);
            let mut rank = 0u64; let mut b = 0;
            while b < 3 { if b < q && (mask >> b) & 1 == 1 { rank += 1; } b += 1; }
            assert!(REG_DATA[0] == rank);                                       // event id = number of lower-numbered queues in that mask
            // ... and that worker's ring slice has queue q at that position (slice = rings of the mask in increasing order)
            let hv = &h.handlers[(owner - 40) as usize];
            assert!(crate::event_loop::verif_kani::handler_ring_is(hv, rank as usize, &h.vrings[q as usize]));
        }
    }
    core::mem::forget(h); core::mem::forget(kb);
}}
    };
}
// bounded: 3 queues, 2 workers, every pair of masks < 8 (sparse, interleaved, overlapping, empty), one harness per kicked queue
rank_harness!(c17_registration_rank_q0_bounded, 0);
rank_harness!(c17_registration_rank_q1_bounded, 1);
rank_harness!(c17_registration_rank_q2_bounded, 2);

