// Kani support + obligations for vhost-user-backend/src/vring.rs (child module).
// KVring: a VringT implementation over the REAL VringState (all state transitions run the crate's code) without the
// Arc<Mutex>/GuestMemoryAtomic drop glue (dropping an ArcSwap makes kani-compiler 0.68 panic, see DESIGN.md); the
// state is leaked, never dropped. The VringMutex / VringRwLock delegation layer is verified separately (Verus unit `adapters`).
#![allow(unused_imports, dead_code, non_snake_case, static_mut_refs)]
use super::*;
use crate::GM;
use std::os::unix::io::AsRawFd;
use std::cell::UnsafeCell;

pub(crate) struct KVring { st: &'static UnsafeCell<VringState<GM<()>>> }
unsafe impl Send for KVring {}
unsafe impl Sync for KVring {}
impl Clone for KVring { fn clone(&self) -> Self { KVring { st: self.st } } }
impl KVring {
    pub(crate) fn make(mem: GM<()>, max: u16) -> KVring {
        let q = match Queue::new(max) { Ok(q) => q, Err(_) => { core::mem::forget(mem); panic!() } };
        let st = VringState { queue: q, kick: None, call: None, err: None, enabled: false, mem };
        KVring { st: Box::leak(Box::new(UnsafeCell::new(st))) }
    }
    fn s(&self) -> &'static mut VringState<GM<()>> { unsafe { &mut *self.st.get() } }
    pub(crate) fn kick_fd(&self) -> Option<i32> { self.s().kick.as_ref().map(|k| k.as_raw_fd()) }
    pub(crate) fn call_fd(&self) -> Option<i32> { self.s().call.as_ref().map(|k| k.as_raw_fd()) }
    pub(crate) fn ready(&self) -> bool { self.s().queue.ready() }
    pub(crate) fn enabled(&self) -> bool { self.s().enabled }
    pub(crate) fn queue(&self) -> &'static Queue { &self.s().queue }
    pub(crate) fn same_as(&self, o: &KVring) -> bool { core::ptr::eq(self.st, o.st) }
}
impl<'a> VringStateGuard<'a, GM<()>> for KVring { type G = &'a VringState<GM<()>>; }
impl<'a> VringStateMutGuard<'a, GM<()>> for KVring { type G = &'a mut VringState<GM<()>>; }
impl VringT<GM<()>> for KVring {
    fn new(mem: GM<()>, max: u16) -> Result<Self, VirtQueError> { Ok(KVring::make(mem, max)) }
    fn get_ref(&self) -> &VringState<GM<()>> { self.s() }
    fn get_mut(&self) -> &mut VringState<GM<()>> { self.s() }
    fn add_used(&self, d: u16, l: u32) -> Result<(), VirtQueError> { self.s().add_used(d, l) }
    fn signal_used_queue(&self) -> io::Result<()> { self.s().signal_used_queue() }
    fn enable_notification(&self) -> Result<bool, VirtQueError> { self.s().enable_notification() }
    fn disable_notification(&self) -> Result<(), VirtQueError> { self.s().disable_notification() }
    fn needs_notification(&self) -> Result<bool, VirtQueError> { self.s().needs_notification() }
    fn set_enabled(&self, e: bool) { self.s().set_enabled(e) }
    fn set_queue_info(&self, d: u64, a: u64, u: u64) -> Result<(), VirtQueError> { self.s().set_queue_info(d, a, u) }
    fn queue_next_avail(&self) -> u16 { self.s().queue_next_avail() }
    fn set_queue_next_avail(&self, b: u16) { self.s().set_queue_next_avail(b) }
    fn set_queue_next_used(&self, i: u16) { self.s().set_queue_next_used(i) }
    fn queue_used_idx(&self) -> Result<u16, VirtQueError> { self.s().queue_used_idx() }
    fn set_queue_size(&self, n: u16) { self.s().set_queue_size(n) }
    fn set_queue_event_idx(&self, e: bool) { self.s().set_queue_event_idx(e) }
    fn set_queue_ready(&self, r: bool) { self.s().set_queue_ready(r) }
    fn set_kick(&self, f: Option<File>) { self.s().set_kick(f) }
    fn read_kick(&self) -> io::Result<bool> { self.s().read_kick() }
    fn set_call(&self, f: Option<File>) { self.s().set_call(f) }
    fn set_err(&self, f: Option<File>) { self.s().set_err(f) }
}

// ------------------------------------------------------------------ obligations on the real VringState
use crate::handler::verif_kani::ledger_drop;
use vm_memory::{GuestMemoryAtomic, GuestMemoryMmap};

pub(crate) static mut NOTIFIED: usize = 0;
pub(crate) static mut NOTIFIED_FD: i32 = -1;
fn stub_notify(n: &EventNotifier) -> Result<(), io::Error> { unsafe { NOTIFIED += 1; NOTIFIED_FD = n.as_raw_fd(); } Ok(()) }
static mut CLOSED_FDS: [i32; 4] = [-1; 4];
static mut N_CLOSED: usize = 0;
fn ledger2(fd: &mut std::os::fd::OwnedFd) { unsafe { if N_CLOSED < 4 { CLOSED_FDS[N_CLOSED] = fd.as_raw_fd(); } N_CLOSED += 1; } }
fn closed(fd: i32) -> usize { unsafe { let c = |i: usize| (i < N_CLOSED && CLOSED_FDS[i] == fd) as usize; c(0) + c(1) + c(2) + c(3) } }

// C14: used buffers are signalled on the call descriptor most recently installed for the ring; nothing happens when none is installed
#[kani::proof]
#[kani::stub(vmm_sys_util::event::EventNotifier::notify, stub_notify)]
#[kani::stub(<std::os::fd::OwnedFd as std::ops::Drop>::drop, ledger2)]
#[kani::unwind(4)]
fn c14_signal_used_queue_uses_latest_call_fd() {
    let mem: GM<()> = GuestMemoryAtomic::new(GuestMemoryMmap::<()>::new());
    let v = KVring::make(mem.clone(), 256);
    let n: u8 = kani::any();
    kani::assume(n <= 2);
    if n >= 1 { v.set_call(Some(unsafe { File::from_raw_fd(201) })); }
    if n >= 2 { v.set_call(Some(unsafe { File::from_raw_fd(202) })); }
    let clear: bool = kani::any();
    if clear { v.set_call(None); }
    unsafe { NOTIFIED = 0; }
    let r = v.signal_used_queue();
    assert!(r.is_ok());
    unsafe {
        if n == 0 || clear { assert!(NOTIFIED == 0); }
        else { assert!(NOTIFIED == 1 && NOTIFIED_FD == if n == 2 { 202 } else { 201 }); }
    }
    core::mem::forget(v); core::mem::forget(mem);
}

// C09: a descriptor handed to set_kick / set_call / set_err is owned by the ring (into_raw_fd -> from_raw_fd keeps the number, nothing
// is closed at that point); it is closed exactly once when it is replaced or cleared
#[kani::proof]
#[kani::stub(<std::os::fd::OwnedFd as std::ops::Drop>::drop, ledger2)]
#[kani::unwind(4)]
fn c09_vring_fd_ownership() {
    let mem: GM<()> = GuestMemoryAtomic::new(GuestMemoryMmap::<()>::new());
    let v = KVring::make(mem.clone(), 256);
    let which: u8 = kani::any();
    kani::assume(which < 3);
    let set = |f: Option<File>| match which { 0 => v.set_kick(f), 1 => v.set_call(f), _ => v.set_err(f) };
    set(Some(unsafe { File::from_raw_fd(201) }));
    assert!(unsafe { N_CLOSED } == 0);
    let cur = match which { 0 => v.kick_fd(), 1 => v.call_fd(), _ => v.s().err.as_ref().map(|e| e.as_raw_fd()) };
    assert!(cur == Some(201));
    if kani::any() { set(Some(unsafe { File::from_raw_fd(202) })); } else { set(None); }
    assert!(closed(201) == 1 && unsafe { N_CLOSED } == 1 && closed(202) == 0);
    core::mem::forget(v); core::mem::forget(mem);
}
