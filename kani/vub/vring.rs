// Kani support + obligations for vhost-user-backend/src/vring.rs (child module).
// KVring: a VringT implementation over the REAL VringState (all state transitions run the crate's code) without the
// Arc<Mutex>/GuestMemoryAtomic drop glue (dropping an ArcSwap makes kani-compiler 0.68 panic, see DESIGN.md); the
// state is leaked, never dropped. The VringMutex / VringRwLock delegation layer is verified separately (Verus unit `adapters`).
#![allow(unused_imports, dead_code, non_snake_case, static_mut_refs)]
use super::*;
use crate::GM;
use std::os::unix::io::AsRawFd;
use std::cell::UnsafeCell;

pub(crate) struct KVring { st: &'static UnsafeCell<VringState<GM<()>>> }
unsafe impl Send for KVring {}
unsafe impl Sync for KVring {}
impl Clone for KVring { fn clone(&self) -> Self { KVring { st: self.st } } }
impl KVring {
    pub(crate) fn make(mem: GM<()>, max: u16) -> KVring {
        let q = match Queue::new(max) { Ok(q) => q, Err(_) => { core::mem::forget(mem); panic!() } };
        let st = VringState { queue: q, kick: None, call: None, err: None, enabled: false, mem };
        KVring { st: Box::leak(Box::new(UnsafeCell::new(st))) }
    }
    fn s(&self) -> &'static mut VringState<GM<()>> { unsafe { &mut *self.st.get() } }
    pub(crate) fn kick_fd(&self) -> Option<i32> { self.s().kick.as_ref().map(|k| k.as_raw_fd()) }
    pub(crate) fn call_fd(&self) -> Option<i32> { self.s().call.as_ref().map(|k| k.as_raw_fd()) }
    pub(crate) fn ready(&self) -> bool { self.s().queue.ready() }
    pub(crate) fn enabled(&self) -> bool { self.s().enabled }
    pub(crate) fn queue(&self) -> &'static Queue { &self.s().queue }
    pub(crate) fn same_as(&self, o: &KVring) -> bool { core::ptr::eq(self.st, o.st) }
}
impl<'a> VringStateGuard<'a, GM<()>> for KVring { type G = &'a VringState<GM<()>>; }
impl<'a> VringStateMutGuard<'a, GM<()>> for KVring { type G = &'a mut VringState<GM<()>>; }
impl VringT<GM<()>> for KVring {
    fn new(mem: GM<()>, max: u16) -> Result<Self, VirtQueError> { Ok(KVring::make(mem, max)) }
    fn get_ref(&self) -> &VringState<GM<()>> { self.s() }
    fn get_mut(&self) -> &mut VringState<GM<()>> { self.s() }
    fn add_used(&self, d: u16, l: u32) -> Result<(), VirtQueError> { self.s().add_used(d, l) }
    fn signal_used_queue(&self) -> io::Result<()> { self.s().signal_used_queue() }
    fn enable_notification(&self) -> Result<bool, VirtQueError> { self.s().enable_notification() }
    fn disable_notification(&self) -> Result<(), VirtQueError> { self.s().disable_notification() }
    fn needs_notification(&self) -> Result<bool, VirtQueError> { self.s().needs_notification() }
    fn set_enabled(&self, e: bool) { self.s().set_enabled(e) }
    fn set_queue_info(&self, d: u64, a: u64, u: u64) -> Result<(), VirtQueError> { self.s().set_queue_info(d, a, u) }
    fn queue_next_avail(&self) -> u16 { self.s().queue_next_avail() }
    fn set_queue_next_avail(&self, b: u16) { self.s().set_queue_next_avail(b) }
    fn set_queue_next_used(&self, i: u16) { self.s().set_queue_next_used(i) }
    fn queue_used_idx(&self) -> Result<u16, VirtQueError> { self.s().queue_used_idx() }
    fn set_queue_size(&self, n: u16) { self.s().set_queue_size(n) }
    fn set_queue_event_idx(&self, e: bool) { self.s().set_queue_event_idx(e) }
    fn set_queue_ready(&self, r: bool) { self.s().set_queue_ready(r) }
    fn set_kick(&self, f: Option<File>) { self.s().set_kick(f) }
    fn read_kick(&self) -> io::Result<bool> { self.s().read_kick() }
    fn set_call(&self, f: Option<File>) { self.s().set_call(f) }
    fn set_err(&self, f: Option<File>) { self.s().set_err(f) }
}
