// Kani obligations for vhost-user-backend/src/bitmap.rs (child module).
#![allow(unused_imports, dead_code, non_snake_case, static_mut_refs)]
use super::*;

#[kani::proof]
fn c15_page_arith() {
    let a: usize = kani::any();
    let p = page_number(a);
    assert!(p == a >> 12);
    assert!(page_word(p) == p >> 3 && page_bit(p) == (p & 7));
    assert!(LOG_PAGE_SIZE == 4096 && LOG_WORD_SIZE == 8);
}

use std::sync::atomic::AtomicU8;

// real AtomicBitmapMmap / BitmapMmapRegion over an in-memory "shared log" (4 bytes = 32 guest pages).
// bounded: log of 4 bytes, writes touching at most 5 pages; every layout (pages_before, number_of_pages) that `new` can produce.
fn mk_log(bytes: &'static [AtomicU8; 4]) -> Arc<MmapLogReg> {
    Arc::new(MmapLogReg { addr: bytes.as_ptr(), len: 4 })
}
static LOG: [AtomicU8; 4] = [AtomicU8::new(0), AtomicU8::new(0), AtomicU8::new(0), AtomicU8::new(0)];

#[kani::proof]
#[kani::unwind(8)]
fn c15_mark_dirty_bits_bounded() {
    let init: [u8; 4] = kani::any();
    let mut i = 0;
    while i < 4 { LOG[i].store(init[i], Ordering::Relaxed); i += 1; }
    let logmem = mk_log(&LOG);
    let (before, npages): (usize, usize) = (kani::any(), kani::any());
    kani::assume(npages >= 1 && npages <= 32 && before <= 32 && before + npages <= 32);          // what AtomicBitmapMmap::new guarantees for page-aligned regions
    let b = AtomicBitmapMmap { logmem: logmem.clone(), pages_before_region: before, number_of_pages: npages };
    let (off, len): (usize, usize) = (kani::any(), kani::any());
    kani::assume(len <= 4 * 4096 + 1);                         // at most 5 pages per write
    b.mark_dirty(off, len);
    // oracle: a guest page is dirtied iff the byte range [off, off+len) of the region intersects it
    let p: usize = kani::any();
    kani::assume(p < 32);
    let abs_touched = len > 0 && p >= before && p < before + npages && {
        let rp = p - before;                                      // page index inside the region
        let first = off / 4096;
        let last = (off as u128 + len as u128 - 1).min(usize::MAX as u128) as usize / 4096;
        rp >= first && rp <= last
    };
    let was = (init[p / 8] >> (p % 8)) & 1 == 1;
    let now = (LOG[p / 8].load(Ordering::Relaxed) >> (p % 8)) & 1 == 1;
    assert!(now == (was || abs_touched));                         // every touched page set, no other bit changed (LSB first, bit number gpa/4096)
    core::mem::forget(b); core::mem::forget(logmem);
}

// slices: offsets compose without wrap; writes through a slice land on base + offset
#[kani::proof]
#[kani::unwind(8)]
fn c15_region_slice_offsets_bounded() {
    let mut i = 0;
    while i < 4 { LOG[i].store(0, Ordering::Relaxed); i += 1; }
    let logmem = mk_log(&LOG);
    let inner = AtomicBitmapMmap { logmem: logmem.clone(), pages_before_region: 0, number_of_pages: 32 };
    let region = BitmapMmapRegion { inner: Arc::new(RwLock::new(Some(inner))), base_address: 0 };
    let (o1, o2, off): (usize, usize, usize) = (kani::any(), kani::any(), kani::any());
    let s1 = region.slice_at(o1);
    let s2 = s1.slice_at(o2);
    assert!(s2.base_address == o1.saturating_add(o2));
    kani::assume(o1 < 16 * 4096 && o2 < 8 * 4096 && off < 8 * 4096);
    s2.mark_dirty(off, 1);
    let want = (o1 + o2 + off) / 4096;
    let p: usize = kani::any();
    kani::assume(p < 32);
    let now = (LOG[p / 8].load(Ordering::Relaxed) >> (p % 8)) & 1 == 1;
    assert!(now == (p == want));
    assert!(s2.dirty_at(off));
    core::mem::forget(s2); core::mem::forget(s1); core::mem::forget(region); core::mem::forget(logmem);
}

// replace: a later SET_LOG_BASE installs the new log for the region (writes go to the NEW log)
static LOG2: [AtomicU8; 4] = [AtomicU8::new(0), AtomicU8::new(0), AtomicU8::new(0), AtomicU8::new(0)];
#[kani::proof]
#[kani::unwind(8)]
fn c15_replace_installs_new_log() {
    let l1 = mk_log(&LOG); let l2 = mk_log(&LOG2);
    let mut i = 0;
    while i < 4 { LOG[i].store(0, Ordering::Relaxed); LOG2[i].store(0, Ordering::Relaxed); i += 1; }
    let region = BitmapMmapRegion::default();
    let twice: bool = kani::any();
    if twice { region.replace(AtomicBitmapMmap { logmem: l1.clone(), pages_before_region: 0, number_of_pages: 32 }); }
    region.replace(AtomicBitmapMmap { logmem: l2.clone(), pages_before_region: 0, number_of_pages: 32 });
    let pg: usize = kani::any();
    kani::assume(pg < 32);
    region.mark_dirty(pg * 4096, 1);
    assert!((LOG2[pg / 8].load(Ordering::Relaxed) >> (pg % 8)) & 1 == 1);
    assert!(LOG[pg / 8].load(Ordering::Relaxed) == 0);
    core::mem::forget(region); core::mem::forget(l1); core::mem::forget(l2);
}

// a region created after SET_LOG_BASE starts with NewBitmap::with_len's bitmap: no inner log, writes are not recorded
#[kani::proof]
#[kani::unwind(4)]
fn c15_fresh_region_bitmap_unlogged() {
    let b = <BitmapMmapRegion as NewBitmap>::with_len(kani::any());
    assert!(b.inner.read().unwrap().is_none() && b.base_address == 0);
    let off: usize = kani::any();
    b.mark_dirty(off, 1);
    assert!(!b.dirty_at(off));
    core::mem::forget(b);
}
