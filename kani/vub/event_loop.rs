// Kani obligations for vhost-user-backend/src/event_loop.rs (child module) + constructor used by the handler harnesses.
#![allow(unused_imports, dead_code, non_snake_case, static_mut_refs)]
use super::*;

// A VringEpollHandler whose epoll descriptor is the plain number `epoll_fd` (never used for a syscall: Epoll::ctl is stubbed
// in every harness that reaches it, and the value is forgotten, not dropped).
pub(crate) fn mk_epoll_handler<T: VhostUserBackend>(backend: T, vrings: Vec<T::Vring>, thread_id: usize, epoll_fd: RawFd, exit: Option<EventNotifier>) -> VringEpollHandler<T> {
    VringEpollHandler {
        epoll: unsafe { core::mem::transmute::<RawFd, Epoll>(epoll_fd) },
        backend,
        vrings,
        thread_id,
        exit_event_fd: exit,
        phantom: PhantomData,
    }
}

pub(crate) fn handler_ring_is(h: &VringEpollHandler<std::sync::Arc<crate::handler::verif_kani::KB>>, pos: usize, v: &crate::vring::verif_kani::KVring) -> bool {
    pos < h.vrings.len() && h.vrings[pos].same_as(v)
}

use crate::handler::verif_kani::{KB, stub_epoll_ctl, ledger_drop, REG, REG_DATA, REG_EP, CTL_CALLS, NFD};
use crate::vring::verif_kani::KVring;
use std::os::fd::FromRawFd;
use std::sync::Arc;
use std::sync::atomic::Ordering;
use vm_memory::{GuestMemoryAtomic, GuestMemoryMmap};

pub(crate) static mut CONSUMED: usize = 0;
fn stub_consume(_c: &vmm_sys_util::event::EventConsumer) -> std::result::Result<(), io::Error> { unsafe { CONSUMED += 1; } Ok(()) }

fn mk(nq: usize, nrings: usize, exit: bool) -> (Arc<KB>, VringEpollHandler<Arc<KB>>, Vec<KVring>) {
    let kb = Arc::new(KB::new(nq, 256, u64::MAX, vec![1]));
    let mem: crate::GM<()> = GuestMemoryAtomic::new(GuestMemoryMmap::<()>::new());
    let mut vr = Vec::new();
    let mut i = 0;
    while i < nrings { vr.push(KVring::make(mem.clone(), 256)); i += 1; }
    let ex = if exit { Some(unsafe { EventNotifier::from_raw_fd(210) }) } else { None };
    let h = mk_epoll_handler(kb.clone(), vr.clone(), 0, 40, ex);
    core::mem::forget(mem);
    (kb, h, vr)
}

// C17: custom listeners are accepted only with ids above num_queues (queue ranks are < num_queues, the exit event is
// num_queues) and are registered with exactly the id given
#[kani::proof]
#[kani::stub(vmm_sys_util::epoll::Epoll::ctl, stub_epoll_ctl)]
#[kani::unwind(4)]
fn c17_listener_ids() {
    let nq: usize = kani::any();
    kani::assume(nq >= 1 && nq <= 6);
    let (kb, h, vr) = mk(nq, 1, false);
    let data: u64 = kani::any();
    let unreg: bool = kani::any();
    unsafe { REG = [false; NFD]; if unreg { REG[1] = true; REG_DATA[1] = data; } CTL_CALLS = 0; }
    let r = if unreg { h.unregister_listener(201, EventSet::IN, data) } else { h.register_listener(201, EventSet::IN, data) };
    unsafe {
        if data <= nq as u64 { assert!(r.is_err() && CTL_CALLS == 0); }          // ids of queues and of the exit event are reserved
        if r.is_ok() {
            assert!(data > nq as u64 && CTL_CALLS == 1);
            // an accepted id is delivered unchanged: the dispatcher reads it as `event.data() as u16`
            assert!((data as u16) as u64 == data);
            assert!((data as u16) as usize != nq && (data as u16) as usize >= 1);     // never confused with the exit event or a ring
            if unreg { assert!(!REG[1]); } else { assert!(REG[1] && REG_DATA[1] == data && REG_EP[1] == 40); }
        } else { assert!(CTL_CALLS == 0); }
        if data > nq as u64 && data <= 65535 { assert!(r.is_ok()); }             // every deliverable id above the reserved range is accepted
    }
    core::mem::forget(h); core::mem::forget(kb); core::mem::forget(vr);
}

// C11/C17: dispatch rule of the worker for one event
#[kani::proof]
#[kani::stub(vmm_sys_util::event::EventConsumer::consume, stub_consume)]
#[kani::stub(<std::os::fd::OwnedFd as std::ops::Drop>::drop, ledger_drop)]
#[kani::unwind(4)]
fn c11_c17_handle_event_dispatch() {
    let exit: bool = kani::any();
    let (kb, h, vr) = mk(1, 1, exit);
    let (enabled, has_kick): (bool, bool) = (kani::any(), kani::any());
    vr[0].set_enabled(enabled);
    if has_kick { vr[0].set_kick(Some(unsafe { std::fs::File::from_raw_fd(200) })); }
    let ev: u16 = kani::any();
    unsafe { CONSUMED = 0; }
    let r = h.handle_event(ev, EventSet::IN);
    let calls = kb.he_calls.load(Ordering::Relaxed);
    match r {
        Ok(stop) => {
            if exit && ev == 1 { assert!(stop && calls == 0); }                       // exit event: id num_queues, the backend is not entered
            else {
                assert!(!stop);
                if ev == 0 {
                    // ring event: the kick counter is consumed iff a kick descriptor is installed; backend entered iff the ring is enabled
                    assert!(unsafe { CONSUMED } == has_kick as usize);
                    assert!(calls == enabled as usize);
                } else { assert!(calls == 1 && unsafe { CONSUMED } == 0); }           // custom listener id: handed to the backend as is
                if calls == 1 {
                    assert!(kb.he_event.load(Ordering::Relaxed) == ev as u64 && kb.he_thread.load(Ordering::Relaxed) == 0 && kb.he_nvrings.load(Ordering::Relaxed) == 1);
                }
            }
        }
        Err(_) => assert!(false),
    }
    core::mem::forget(h); core::mem::forget(kb); core::mem::forget(vr);
}
