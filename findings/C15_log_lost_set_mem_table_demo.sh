#!/bin/bash
# native demonstration of known finding C15/log-kept: the regions of a SET_MEM_TABLE issued after SET_LOG_BASE are not logged.
# exit 0 = finding reproduced (log bit of the new region's page stays clear after a backend write)
set -u
WT=/tmp/wt/demo_h; git -C /repo worktree remove --force $WT 2>/dev/null; git -C /repo worktree add -q --detach $WT ${DEMO_REF:-HEAD} || exit 2
cd $WT && python3 - <<'PY'
p='vhost-user-backend/src/handler.rs'
s=open(p).read()
test='''
    struct LogBackend;
    impl crate::VhostUserBackendMut for LogBackend {
        type Bitmap = crate::bitmap::BitmapMmapRegion;
        type Vring = crate::VringRwLock<GM<crate::bitmap::BitmapMmapRegion>>;
        fn num_queues(&self) -> usize { 1 }
        fn max_queue_size(&self) -> usize { 256 }
        fn features(&self) -> u64 { 0 }
        fn protocol_features(&self) -> VhostUserProtocolFeatures { VhostUserProtocolFeatures::all() }
        fn set_event_idx(&mut self, _e: bool) {}
        fn update_memory(&mut self, _m: GM<crate::bitmap::BitmapMmapRegion>) -> std::io::Result<()> { Ok(()) }
        fn handle_event(&mut self, _d: u16, _e: EventSet, _v: &[Self::Vring], _t: usize) -> std::io::Result<()> { Ok(()) }
    }
    #[test]
    fn verif_demo_table_set_after_set_log_base_is_not_logged() {
        use vm_memory::{Bytes, GuestMemory};
        use std::io::{Read, Seek, SeekFrom, Write};
        let mem: GM<crate::bitmap::BitmapMmapRegion> = GuestMemoryAtomic::new(GuestMemoryMmap::new());
        let backend = Arc::new(Mutex::new(LogBackend));
        let mut handler = VhostUserHandler::new(backend, mem.clone()).unwrap();
        let mkfile = |len: u64| { let f = vmm_sys_util::tempfile::TempFile::new().unwrap().into_file(); f.set_len(len).unwrap(); f };
        // region A: guest pages 0..2
        handler.add_mem_region(&VhostUserSingleMemoryRegion::new(0x0, 0x2000, 0x7f00_0000_0000, 0), mkfile(0x2000)).unwrap();
        // log of 1 byte = 8 guest pages
        let mut logf = mkfile(0x1000);
        handler.set_log_base(&VhostUserLog::new(0x1000, 0), logf.try_clone().unwrap()).unwrap();
        mem.memory().write_obj(0xaau8, GuestAddress(0x1000)).unwrap();           // page 1 of region A
        // region B added while logging is on: guest pages 4..6
        handler.set_mem_table(&[VhostUserMemoryRegion::new(0x0, 0x2000, 0x7f00_0000_0000, 0), VhostUserMemoryRegion::new(0x4000, 0x2000, 0x7f00_0010_0000, 0)], vec![mkfile(0x2000), mkfile(0x2000)]).unwrap();
        mem.memory().write_obj(0xbbu8, GuestAddress(0x5000)).unwrap();           // page 5 of region B
        let mut b = [0u8; 1];
        logf.seek(SeekFrom::Start(0)).unwrap(); logf.read_exact(&mut b).unwrap();
        eprintln!("VERIF-DEMO log byte = {:#010b} (bit 1 = page of region A, bit 5 = page of region B)", b[0]);
        std::process::exit(if b[0] & (1 << 5) != 0 { 0 } else { 3 });
    }
'''
i=s.rindex('}')
open(p,'w').write(s[:i]+test+s[i:])
PY
CARGO_TARGET_DIR=/tmp/wt/demo_h_target cargo test -p vhost-user-backend --offline --lib verif_demo_table_set -- --nocapture 2>&1 | tee /tmp/wt/demo_h.log | grep -E "VERIF-DEMO|^error|panicked" | head
grep -q "exit status: 3" /tmp/wt/demo_h.log; rc=$?
cd /; git -C /repo worktree remove --force $WT; rm -rf /tmp/wt/demo_h_target
exit $rc
