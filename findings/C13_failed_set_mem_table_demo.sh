#!/bin/bash
# native demonstration of known finding C13/mem-intact: a FAILED SET_MEM_TABLE (backend.update_memory returns Err) has already
# replaced the guest memory the backend sees. Runs in a scratch worktree; exit 0 = finding reproduced.
set -u
WT=/tmp/wt/demo_g; git -C /repo worktree remove --force $WT 2>/dev/null; git -C /repo worktree add -q --detach $WT ${DEMO_REF:-HEAD} || exit 2
cd $WT && python3 - <<'PY'
p='vhost-user-backend/src/handler.rs'
s=open(p).read()
test='''
    struct FailingUpdate;
    impl crate::VhostUserBackendMut for FailingUpdate {
        type Bitmap = ();
        type Vring = crate::VringRwLock;
        fn num_queues(&self) -> usize { 1 }
        fn max_queue_size(&self) -> usize { 256 }
        fn features(&self) -> u64 { 0 }
        fn protocol_features(&self) -> VhostUserProtocolFeatures { VhostUserProtocolFeatures::all() }
        fn set_event_idx(&mut self, _e: bool) {}
        fn update_memory(&mut self, _m: GM<()>) -> std::io::Result<()> { Err(std::io::Error::from_raw_os_error(12)) }
        fn handle_event(&mut self, _d: u16, _e: EventSet, _v: &[Self::Vring], _t: usize) -> std::io::Result<()> { Ok(()) }
    }
    #[test]
    fn verif_demo_failed_set_mem_table_changes_memory() {
        use vm_memory::GuestMemory;
        let mem = GuestMemoryAtomic::new(GuestMemoryMmap::<()>::new());
        let backend = Arc::new(Mutex::new(FailingUpdate));
        let mut handler = VhostUserHandler::new(backend, mem.clone()).unwrap();
        let f = vmm_sys_util::tempfile::TempFile::new().unwrap().into_file();
        f.set_len(0x2000).unwrap();
        let region = VhostUserMemoryRegion::new(0x10_0000, 0x2000, 0x7f00_0000_0000, 0);
        let before = mem.memory().num_regions();
        let r = handler.set_mem_table(&[region], vec![f]);
        assert!(r.is_err());
        let after = mem.memory().num_regions();
        // (the handler is not dropped: without exit events its Drop would wait for the worker thread forever)
        eprintln!("VERIF-DEMO set_mem_table returned Err; regions before={} after={}", before, after);
        if before != after { eprintln!("a FAILED SET_MEM_TABLE changed the guest memory the backend sees"); }
        std::process::exit(if before == after { 0 } else { 3 });
    }
'''
i=s.rindex('}')
open(p,'w').write(s[:i]+test+s[i:])
PY
CARGO_TARGET_DIR=/tmp/wt/demo_g_target cargo test -p vhost-user-backend --offline --lib verif_demo_failed_set -- --nocapture 2>&1 | tee /tmp/wt/demo_g.log | grep -E "panicked|FAILED SET|test result|^error" | head
grep -q "a FAILED SET_MEM_TABLE changed the guest memory" /tmp/wt/demo_g.log; rc=$?
cd /; git -C /repo worktree remove --force $WT; rm -rf /tmp/wt/demo_g_target
exit $rc
