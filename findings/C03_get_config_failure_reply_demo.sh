#!/bin/bash
# native demonstration of known finding C03/get-config-failure-reply: when the backend handler fails GET_CONFIG, the backend
# writes its in-band failure reply (config body with size 0, NO payload: 24 bytes) but Frontend::get_config keeps waiting for
# 24 + size bytes: the call does not return while the connection is alive. exit 0 = finding reproduced.
set -u
WT=/tmp/wt/demo_c; git -C /repo worktree remove --force $WT 2>/dev/null; git -C /repo worktree add -q --detach $WT ${DEMO_REF:-HEAD} || exit 2
cd $WT && python3 - <<'PY'
p='vhost/src/vhost_user/mod.rs'
s=open(p).read()
test='''
    #[test]
    fn verif_demo_get_config_handler_failure_blocks_frontend() {
        use std::sync::mpsc;
        use std::time::Duration;
        let backend_be = Arc::new(Mutex::new(DummyBackendReqHandler::new()));
        let path = temp_path();
        let (mut frontend, mut backend) = create_backend(path, backend_be.clone());
        // negotiate CONFIG on both sides
        let t = thread::spawn(move || {
            for _ in 0..5 { backend.handle_request().unwrap(); }   // set_owner, get/set features, get/set protocol features
            let r = backend.handle_request();                      // GET_CONFIG: handler refuses offset 0 -> in-band failure reply
            eprintln!("VERIF-DEMO backend handle_request(GET_CONFIG) returned {:?} (reply written)", r.is_ok());
            thread::sleep(Duration::from_secs(4));                  // connection stays alive
            drop(backend);
        });
        frontend.set_owner().unwrap();
        let f = frontend.get_features().unwrap();
        frontend.set_features(f).unwrap();
        let pf = frontend.get_protocol_features().unwrap();
        frontend.set_protocol_features(pf).unwrap();
        let (tx, rx) = mpsc::channel();
        let h = thread::spawn(move || {
            let r = frontend.get_config(0, 4, VhostUserConfigFlags::WRITABLE, &[0u8; 4]);
            let _ = tx.send(r.is_ok());
        });
        match rx.recv_timeout(Duration::from_secs(3)) {
            Ok(ok) => { eprintln!("VERIF-DEMO frontend returned within 3 s (ok={})", ok); std::process::exit(0); }
            Err(_) => { eprintln!("VERIF-DEMO frontend.get_config still blocked 3 s after the backend wrote its failure reply"); std::process::exit(3); }
        }
        #[allow(unreachable_code)] { let _ = (t, h); }
    }
'''
i=s.rindex('}')
open(p,'w').write(s[:i]+test+s[i:])
PY
CARGO_TARGET_DIR=/tmp/wt/demo_c_target cargo test -p vhost --offline --features vhost-user-frontend,vhost-user-backend --lib verif_demo_get_config_handler -- --nocapture 2>&1 | tee /tmp/wt/demo_c.log | grep -E "VERIF-DEMO|^error\[|panicked" | head
grep -q "exit status: 3" /tmp/wt/demo_c.log; rc=$?
cd /; git -C /repo worktree remove --force $WT; rm -rf /tmp/wt/demo_c_target
exit $rc
