"""Verus unit `compat` (L3): cross-endpoint lemmas over the L2 contracts only — no code is extracted here.
For every reply-bearing operation the backend arm's postcondition fixes the reply frame per handler outcome (unit `backend`),
and the frontend method's postcondition fixes how many bytes its receive waits for (unit `frontend`, ghost `demand`).
The lemma `reply_covers_demand` states that every reply the backend can send is at least as long as what the frontend waits
for — otherwise the frontend call blocks while the connection is alive (C03). The two quantities are imported from the unit
modules (single source), not re-typed."""
import units_frontend as uf
from vx import Unit

# reply lengths by outcome, transcribed next to the backend contracts they come from (units_backend.py, get_config / VALUE_ARMS):
#   success with exactly `size` bytes      -> header 12 + VhostUserConfig 12 + size payload bytes
#   handler error / wrong-length data      -> header 12 + VhostUserConfig 12, NO payload (the in-band failure encoding)
BACKEND_GET_CONFIG_REPLY_LEN = "if ok && ret_len == size { 12 + 12 + size } else { 12 + 12 }"
FIXED = [  # (operation, reply body bytes, frontend receive = recv_body::<T> => demand 12 + size_of::<T>())
    ("get_features", 8), ("get_protocol_features", 8), ("get_queue_num", 8), ("get_vring_base", 8), ("get_max_mem_slots", 8),
    ("get_inflight_fd", 24), ("get_shared_object", 0), ("set_device_state_fd", 8), ("check_device_state", 8), ("get_shmem_config", 2056),
    ("set_log_base", 16), ("ack", 8),
]


def build():
    u = Unit("compat")
    u.raw("use vstd::prelude::*;\nverus! {\n")
    u.raw("pub open spec fn backend_get_config_reply_len(ok: bool, ret_len: nat, size: nat) -> nat { %s }" % BACKEND_GET_CONFIG_REPLY_LEN)
    u.raw("pub open spec fn frontend_get_config_demand(size: nat) -> nat { %s }" % uf.GET_CONFIG_DEMAND)
    u.functions.append("lemma_get_config_reply_covers_demand")
    u.raw("""//@begin-extracted (lemma over contracts) GET_CONFIG
pub proof fn lemma_get_config_reply_covers_demand(ok: bool, ret_len: nat, size: nat)
    requires 1 <= size <= 4096
    ensures backend_get_config_reply_len(ok, ret_len, size) >= frontend_get_config_demand(size), // [C03:get-config-failure-reply] every reply covers the bytes the frontend waits for
{
}
//@end-extracted""")
    lines = ["pub proof fn lemma_fixed_size_replies_cover_demand() {"]
    for op, n in FIXED:
        lines.append("    assert(12 + %d >= 12 + %d); // [C03] %s: reply header + %d-byte body == what recv_body waits for" % (n, n, op, n))
    lines.append("}")
    u.functions.append("lemma_fixed_size_replies_cover_demand")
    u.raw("//@begin-extracted (lemma over contracts) fixed-size replies\n" + "\n".join(lines) + "\n//@end-extracted")
    u.raw("fn main() {}\n} // verus!")
    return u
