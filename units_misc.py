"""Verus unit: loops and arithmetic that need unbounded reasoning (no bound on lengths / offsets):
handler.rs vmm_va_to_gpa, bitmap.rs page arithmetic / AtomicBitmapMmap::{new, mark_dirty},
vhost_kern ioctl_result / io_result."""
import re
from vx import Unit, Source, ExtractError, sha

CONN = "vhost/src/vhost_user/connection.rs"
HND = "vhost-user-backend/src/handler.rs"
BMP = "vhost-user-backend/src/bitmap.rs"
KERN = "vhost/src/vhost_kern/mod.rs"


def build():
    u = Unit("misc")
    conn, hnd, bmp, kern = Source(CONN), Source(HND), Source(BMP), Source(KERN)
    u.raw("use vstd::prelude::*;\nverus! {\nglobal size_of usize == 8;   // A-ARITH: 64-bit target\n")
    u.env("misc.rs")
    # (C08: get_sub_iovs_offset moved to unit `chunk` together with the two loops that call it)
    # ---- C13 / C05: vmm_va_to_gpa
    span = hnd.impl_span(r'^impl<T: VhostUserBackend> VhostUserHandler<T>$')
    u.raw("impl VhostUserHandler {")
    u.extracted_fn(hnd, "vmm_va_to_gpa", within=span,
                   loops=[dict(kind="for", nth=0, iter="it", text="""            invariant mappings_ok(self.mappings@),
                forall|j: int| 0 <= j < it.index@ ==> !contains_va(#[trigger] self.mappings@[j], vmm_va)""")],
                   hints=[(r'for mapping in [^{]*\{',  "assert(*mapping == self.mappings@[it.index@ as int]); assert(mapping_ok(self.mappings@[it.index@ as int]));", "after")],
                   contract="""
        requires mappings_ok(self.mappings@)   // [C05] no overflow in vmm_addr + size / va - vmm_addr + gpa_base under the table invariant
        ensures
            r is Ok ==> exists|i: int| 0 <= i < self.mappings@.len() && contains_va(#[trigger] self.mappings@[i], vmm_va)
                && r->Ok_0 == self.mappings@[i].gpa_base + (vmm_va - self.mappings@[i].vmm_addr)
                && forall|j: int| 0 <= j < i ==> !contains_va(#[trigger] self.mappings@[j], vmm_va), // [C13,C14] gpa_base + (va - user_base) of the FIRST region containing va
            r is Ok ==> is_translation(self.mappings@, vmm_va, r->Ok_0),
            r is Err ==> forall|i: int| 0 <= i < self.mappings@.len() ==> !contains_va(#[trigger] self.mappings@[i], vmm_va), // [C13,C14] rejected iff no region contains it""")
    span2 = hnd.impl_span(r'^impl<T: VhostUserBackend> VhostUserBackendReqHandlerMut for VhostUserHandler<T>')
    sva = u.rw.strip_comments(hnd.fn_body("set_vring_addr", within=span2))
    u.scan(["C14"], "set_vring_addr_calls", sva.count(".set_queue_info(") == 1 and sva.count(".queue_used_idx()") == 1 and sva.count(".set_queue_next_used(") == 1
           and sva.index(".set_queue_info(") < sva.index(".queue_used_idx()") < sva.index(".set_queue_next_used("),
           "set_vring_addr calls set_queue_info, queue_used_idx and set_queue_next_used exactly once each, in that order")
    u.extracted_fn(hnd, "set_vring_addr", within=span2,
                   body_rw=[("R6", r'self\s*\.vrings\s*\.get\(index as usize\)\s*\.ok_or\(VhostUserError::InvalidParam\)\?', 'vrings_get(&self.vrings, index as usize)?'),
                            ("R6", r'\.map_err\(\|e\| VhostUserError::ReqHandlerError\(io::Error::other\(e\)\)\)', '.map_err(|e: VhostUserHandlerError| -> (o: VhostUserError) { wrap_handler_err(e) })'),
                            ("R6", r'\.map_err\(\|_\| VhostUserError::InvalidParam\)', '.map_err(|e: VirtQueError| -> (o: VhostUserError) { VhostUserError::InvalidParam })'),
                            ("R6", r'\.map_err\(\|_\| VhostUserError::BackendInternalError\)', '.map_err(|e: VirtQueError| -> (o: VhostUserError) { VhostUserError::BackendInternalError })')],
                   contract="""
        requires mappings_ok(old(self).mappings@),
            // the ring may only be told the translations of the request's addresses, each in its own slot, and the used index read from guest memory
            (index as int) < old(self).vrings@.len() ==> (
                forall|g: u64| is_translation(old(self).mappings@, descriptor, g) ==> old(self).vrings@[index as int].exp@.desc == g)
                && (forall|g: u64| is_translation(old(self).mappings@, available, g) ==> old(self).vrings@[index as int].exp@.avail == g)
                && (forall|g: u64| is_translation(old(self).mappings@, used, g) ==> old(self).vrings@[index as int].exp@.used == g),
        ensures
            (index as int) >= old(self).vrings@.len() ==> r is Err, // [C14] out-of-range ring index rejected
            old(self).mappings@.len() == 0 ==> r is Err, // [C14]
            r is Ok ==> (exists|g: u64| is_translation(old(self).mappings@, descriptor, g)) && (exists|g: u64| is_translation(old(self).mappings@, available, g))
                && (exists|g: u64| is_translation(old(self).mappings@, used, g)), // [C14,C13] accepted only if every address lies in a current region""")
    u.raw("}")
    # ---- C13: VhostUserMemoryRegion::mmap_region (message.rs, default feature set): the mapping is made from the PASSED file, at the
    # message's mmap_offset, memory_size bytes long (was an assumed stub until the third session)
    msg = Source("vhost/src/vhost_user/message.rs")
    u.raw("impl RegionMsg {")
    u.extracted_fn(msg, "mmap_region", nth=0,
                   sig_rw=[("R3", r'<B: NewBitmap>', ''), ("R3", r'file: File\b', 'file: FileStub'), ("R3", r'Result<MmapRegion<B>>', 'VhostUserResult<MmapRegionStub>')],
                   body_rw=[("R3", r'MmapRegion::<B>::from_file\(', 'MmapRegionStub::from_file('),
                            ("R6", r'\.map_err\(\|e\| Error::ReqHandlerError\(io::Error::other\(e\)\)\)', '.map_err(|e: MmapErr| -> (o: VhostUserError) { VhostUserError::ReqHandlerError(IoError::Other) })')],
                   contract="""
        ensures r is Ok ==> r->Ok_0 == (MmapRegionStub { size: self.memory_size, file: file.id@, off: self.mmap_offset }), // [C13:region-maps-its-file] the region is mapped from the descriptor that came with it, at the message's mmap_offset, memory_size bytes long""")
    u.raw("}")
    # ---- C13: SET_MEM_TABLE / ADD_MEM_REG / REM_MEM_REG
    MEMRW = [("R6", r'Arc::new\(\s*GuestRegionMmap::new\(\s*region\.mmap_region\(file\)\?,\s*GuestAddress\(region\.guest_phys_addr\),\s*\)\s*\.ok_or\(VhostUserError::ReqHandlerError\(\s*io::ErrorKind::InvalidInput\.into\(\),?\s*\)\)\?,?\s*\)',
              'guest_region_new(region.mmap_region(file)?, GuestAddress(region.guest_phys_addr))?'),
             ("R6", r'\.map_err\(\|e\| VhostUserError::ReqHandlerError\(io::Error::other\(e\)\)\)', ''),
             ("R8", r'self\.atomic_mem\.lock\(\)\.unwrap\(\)\.replace\(([^;]+)\);', r'self.atomic_mem.replace_with(\1);'),
             ("R8", r'\(\*previous\)\.clone\(\)', 'previous.clone_map()'),
             ("R6", r'VhostUserError::ReqHandlerError\(io::Error::other\(e\)\)', 'e'),
             ("R8", r'self\.atomic_mem\.clone\(\)', 'self.atomic_mem.clone_handle()'),
             ("R6", r'self\.mappings\s*\.retain\(\|mapping\| mapping\.(vmm_addr|size|gpa_base) != region\.(\w+)\)', r'retain_field_ne(&mut self.mappings, AddrField::\1, region.\2)')]
    MEMSIG = [("R3", r'&VhostUserSingleMemoryRegion', '&RegionMsg'), ("R10", r'file:\s*File', 'file: FileStub')]
    u.raw("impl MemHandler {")
    # replace_memory: install + notify, previous memory put back when the backend refuses
    if re.search(r'\bfn\s+replace_memory\b', hnd.src):   # (absent before the C13 repair: the three callers then carry the sequence inline)
      u.extracted_fn(hnd, "replace_memory", sig_rw=[("R3", r'GuestMemoryMmap<T::Bitmap>', 'MemSnapshot')], body_rw=MEMRW, contract="""
        ensures
            final(self).mappings@ == old(self).mappings@,
            r is Ok ==> final(self).atomic_mem.view@ == mem.regions && final(self).backend.updates@ == old(self).backend.updates@.push(mem.regions), // [C13] the new memory is installed and the backend told once
            r is Err ==> final(self).atomic_mem.view@ == old(self).atomic_mem.view@, // [C13:mem-intact] a refused update leaves the previous guest memory in place""")
    u.extracted_fn(hnd, "add_mem_region", within=span2, sig_rw=MEMSIG, body_rw=MEMRW, contract="""
        requires mappings_ok(old(self).mappings@), region.memory_size > 0, region.user_addr + region.memory_size <= u64::MAX, region.guest_phys_addr + region.memory_size <= u64::MAX
        ensures
            r is Ok ==> final(self).atomic_mem.view@ == old(self).atomic_mem.view@.push(RegionDesc { gpa: region.guest_phys_addr, size: region.memory_size, file: file.id@, off: region.mmap_offset, logged: final(self).atomic_mem.view@.last().logged })
                && final(self).mappings@ == old(self).mappings@.push(AddrMapping { vmm_addr: region.user_addr, size: region.memory_size, gpa_base: region.guest_phys_addr })
                && final(self).backend.updates@ == old(self).backend.updates@.push(final(self).atomic_mem.view@), // [C13,C14] exactly the accepted region, backed by the passed file at mmap_offset; backend notified once
            r is Ok ==> mappings_ok(final(self).mappings@), // [C05,C13] the table invariant the translation relies on
            r is Err ==> final(self).mappings@ == old(self).mappings@, // [C13,C14] a failed update leaves the translation table intact
            r is Err ==> final(self).atomic_mem.view@ == old(self).atomic_mem.view@, // [C13:mem-intact] ... and the guest memory
            (r is Ok && old(self).atomic_mem.view@.len() > 0 && all_logged(old(self).atomic_mem.view@)) ==> all_logged(final(self).atomic_mem.view@), // [C15:log-kept] logging stays in force for all guest memory across memory-table changes""")
    u.extracted_fn(hnd, "set_mem_table", within=span2,
                   sig_rw=[("R3", r'&\[VhostUserMemoryRegion\]', '&[RegionMsg]'), ("R10", r'files:\s*Vec<File>', 'files: Vec<FileStub>')],
                   body_rw=[("R22", r'let mut regions = Vec::new\(\);', 'let mut regions: Vec<GuestRegionStub> = Vec::new();'),
                            ("R24", r'for \(region, file\) in ctx\.iter\(\)\.zip\(files\) \{', 'for region in ctx.iter() { let file = match zip_next(&mut files) { Some(f) => f, None => break };'),
                            ("R6", r'GuestRegionMmap::new\(\s*region\.mmap_region\(file\)\?,\s*GuestAddress\(region\.guest_phys_addr\),\s*\)\s*\.ok_or\(VhostUserError::ReqHandlerError\(\s*io::ErrorKind::InvalidInput\.into\(\),?\s*\)\)\?',
                             'guest_region_new_plain(region.mmap_region(file)?, GuestAddress(region.guest_phys_addr))?'),
                            ("R6", r'GuestMemoryMmap::from_regions\(regions\)\s*\.map_err\(\|e\| VhostUserError::ReqHandlerError\(io::Error::other\(e\)\)\)', 'mem_from_regions(regions)'),
                            ] + MEMRW[1:],
                   proof_prologue="\n        let ghost files0 = files@; let mut files = files;   // R24: the by-value parameter is rebound mutable for zip_next\n",
                   loops=[dict(kind="for", nth=0, iter="it", text="""            invariant_except_break
                it.index@ < files0.len() || files@.len() == 0,
            invariant
                ctx@.len() == files0.len(), *self == *old(self),
                regions@.len() == it.index@, mappings@.len() == it.index@, it.index@ <= ctx@.len(),
                files@ == files0.subrange(it.index@ as int, files0.len() as int),
                descs(regions@) =~= table_view(ctx@, files0, it.index@ as int),
                mappings@ =~= table_mappings(ctx@, it.index@ as int),
            ensures
                regions@.len() == ctx@.len(), mappings@.len() == ctx@.len(), *self == *old(self),
                descs(regions@) =~= table_view(ctx@, files0, ctx@.len() as int),
                mappings@ =~= table_mappings(ctx@, ctx@.len() as int),""")],
                   hints=[(r'let guest_region = ', "assert(*region == ctx@[it.index@ as int]); assert(file == files0[it.index@ as int]);"),
                          (r'regions\.push\(guest_region\);', """assert(regions@.last().d == table_view(ctx@, files0, it.index@ + 1)[it.index@ as int]);
            assert forall|j: int| 0 <= j < it.index@ implies descs(regions@)[j] == table_view(ctx@, files0, it.index@ + 1)[j] by { assert(descs(regions@.drop_last())[j] == table_view(ctx@, files0, it.index@ as int)[j]); }
            assert(descs(regions@) =~= table_view(ctx@, files0, it.index@ + 1));""", "after")],
                   contract="""
        requires ctx@.len() == files@.len(),   // proved-by: unit backend, set_mem_table arm (one descriptor per region, every region valid)
            forall|j: int| 0 <= j < ctx@.len() ==> region_msg_ok(#[trigger] ctx@[j]),
        ensures
            r is Ok ==> final(self).atomic_mem.view@ == table_view(ctx@, files@, ctx@.len() as int)
                && final(self).mappings@ == table_mappings(ctx@, ctx@.len() as int)
                && final(self).backend.updates@ == old(self).backend.updates@.push(final(self).atomic_mem.view@), // [C13,C14] the memory consists of exactly the regions of the message, region j backed by descriptor j at its mmap_offset; the table is replaced with it; backend notified once
            r is Ok ==> mappings_ok(final(self).mappings@), // [C05,C13]
            r is Err ==> final(self).mappings@ == old(self).mappings@, // [C13,C14] a failed update leaves the translation table intact
            r is Err ==> final(self).atomic_mem.view@ == old(self).atomic_mem.view@, // [C13:mem-intact] ... and the guest memory
            (r is Ok && old(self).atomic_mem.view@.len() > 0 && all_logged(old(self).atomic_mem.view@)) ==> all_logged(final(self).atomic_mem.view@), // [C15:log-kept]""")
    u.extracted_fn(hnd, "remove_mem_region", within=span2, sig_rw=MEMSIG, body_rw=MEMRW, contract="""
        ensures
            r is Ok ==> (exists|i: int| 0 <= i < old(self).atomic_mem.view@.len() && old(self).atomic_mem.view@[i].gpa == region.guest_phys_addr
                         && old(self).atomic_mem.view@[i].size == region.memory_size && final(self).atomic_mem.view@ == old(self).atomic_mem.view@.remove(i)), // [C13]
            r is Ok ==> final(self).mappings@ == old(self).mappings@.filter(|m: AddrMapping| addr_field(m, AddrField::gpa_base) != region.guest_phys_addr)
                && final(self).backend.updates@ == old(self).backend.updates@.push(final(self).atomic_mem.view@), // [C13]
            r is Err ==> final(self).mappings@ == old(self).mappings@, // [C13,C14]
            r is Err ==> final(self).atomic_mem.view@ == old(self).atomic_mem.view@, // [C13:mem-intact]""")
    
    # syntactic frame condition behind [C15:log-base-atomic]: every fallible step of set_log_base precedes the first bitmap
    # replacement, and the loop that replaces bitmaps contains no fallible step (registered BEFORE the extraction so that it is
    # still evaluated when the function's shape changes and the loop invariants lose their anchors)
    slb = u.rw.strip_comments(hnd.fn_body("set_log_base", within=span2))
    first_rep = slb.find(".replace(")
    ok_slb = first_rep > 0 and "?" not in slb[first_rep:] and "return" not in slb[first_rep:]
    if ok_slb:
        # the innermost `for` enclosing the first replace must start after the last `?`
        last_q = slb.rfind("?")
        loop_start = slb.rfind("for ", 0, first_rep)
        ok_slb = loop_start > last_q
    u.scan(["C15"], "set_log_base_all_bitmaps_built_before_any_replace", ok_slb,
           "set_log_base: every fallible step (`?`) comes before the loop that installs the bitmaps; nothing can fail once the first region has been switched")
    # ---- C15: SET_LOG_BASE (all bitmaps are built before any is installed: a refused request changes nothing)
    u.extracted_fn(hnd, "set_log_base", within=span2,
                   sig_rw=[("R10", r'file:\s*File', 'file: FileStub')],
                   body_rw=[("R6", r'Arc::new\(\s*MmapLogReg::from_file\(file\.as_fd\(\), log\.mmap_offset, log\.mmap_size\)\s*\.map_err\(VhostUserError::ReqHandlerError\)\?,?\s*\)', 'log_from_file(&file, log.mmap_offset, log.mmap_size)?'),
                            ("R22", r'let mut bitmaps = Vec::new\(\);', 'let refs = mem.region_refs(); let mut bitmaps: Vec<(&RegionRef, InnerBitmapStub)> = Vec::new();'),
                            ("R21", r'for region in mem\.iter\(\) \{', 'for region in refs.iter() {'),
                            ("R6", r'<<T as VhostUserBackend>::Bitmap as BitmapReplace>::InnerBitmap::new\(\s*region,\s*Arc::clone\(&logmem\),?\s*\)\s*\.map_err\(VhostUserError::ReqHandlerError\)\?', 'inner_bitmap_new(region, &logmem)?'),
                            ("R21", r'for \(region, bitmap\) in bitmaps \{', 'for k in 0..bitmaps.len() { let (region, bitmap) = (bitmaps[k].0, &bitmaps[k].1);'),
                            ("R8", r'\(\*region\)\.bitmap\(\)\.replace\(bitmap\);', 'self.atomic_mem.replace_bitmap(region, bitmap);')],
                   loops=[dict(kind="for", nth=0, iter="it", text="""            invariant *self == *old(self), mem.regions == self.atomic_mem.view@, refs@.len() == mem.regions.len(),
                forall|i: int| 0 <= i < refs@.len() ==> (#[trigger] refs@[i]).idx@ == i,
                bitmaps@.len() == it.index@,
                forall|j: int| 0 <= j < bitmaps@.len() ==> (#[trigger] bitmaps@[j]).0.idx@ == j && bitmaps@[j].1.for_region@ == j,"""),
                          dict(kind="for", nth=1, iter="it2", text="""            invariant self.mappings@ == old(self).mappings@, self.backend == old(self).backend,
                bitmaps@.len() == old(self).atomic_mem.view@.len(), self.atomic_mem.view@.len() == old(self).atomic_mem.view@.len(),
                forall|j: int| 0 <= j < bitmaps@.len() ==> (#[trigger] bitmaps@[j]).0.idx@ == j && bitmaps@[j].1.for_region@ == j,
                forall|j: int| 0 <= j < k ==> (#[trigger] self.atomic_mem.view@[j]).logged,
                forall|j: int| 0 <= j < self.atomic_mem.view@.len() ==> (#[trigger] self.atomic_mem.view@[j]).gpa == old(self).atomic_mem.view@[j].gpa
                    && self.atomic_mem.view@[j].size == old(self).atomic_mem.view@[j].size && self.atomic_mem.view@[j].file == old(self).atomic_mem.view@[j].file
                    && self.atomic_mem.view@[j].off == old(self).atomic_mem.view@[j].off,""")],
                   hints=[(r'bitmaps\.push\(\(region, bitmap\)\);', "assert(*region == refs@[it.index@ as int]);")],
                   contract="""
        ensures
            r is Err ==> final(self).atomic_mem.view@ == old(self).atomic_mem.view@, // [C15:log-base-atomic] a refused SET_LOG_BASE switches no region: the previously accepted log stays in force everywhere
            r is Ok ==> all_logged(final(self).atomic_mem.view@) && final(self).atomic_mem.view@.len() == old(self).atomic_mem.view@.len(), // [C15] an accepted one installs the log in EVERY current region
            r is Ok ==> forall|j: int| 0 <= j < final(self).atomic_mem.view@.len() ==> (#[trigger] final(self).atomic_mem.view@[j]).gpa == old(self).atomic_mem.view@[j].gpa
                && final(self).atomic_mem.view@[j].size == old(self).atomic_mem.view@[j].size, // [C15,C13] the regions themselves are untouched
            final(self).mappings@ == old(self).mappings@,""")
    u.raw("}")
    u.raw("impl ReqFdHandler {")
    u.extracted_fn(hnd, "set_backend_req_fd", within=span2, sig_rw=[("R8", r'backend:\s*Backend', 'mut backend: BackendProxyStub')], contract="""
        requires !backend.reply_ack && !backend.shared_object && !backend.shmem    // a freshly created proxy (Backend::new: all flags false)
        ensures final(self).backend.got@.len() == old(self).backend.got@.len() + 1,
            // [C14] the channel handed to the backend carries exactly the negotiated reply-ack / shared-object / shared-memory settings
            final(self).backend.got@.last().reply_ack == (old(self).acked_protocol_features & 0x8 != 0),
            final(self).backend.got@.last().shared_object == (old(self).acked_protocol_features & 0x4_0000 != 0),
            final(self).backend.got@.last().shmem == (old(self).acked_protocol_features & 0x20_0000 != 0),""")
    u.raw("}")
    # ---- C15: page arithmetic, new, mark_dirty
    u.extracted_fn(bmp, "page_number", contract="        ensures r == addr / 4096 // [C15]")
    u.extracted_fn(bmp, "page_word", contract="        ensures r == page / 8 // [C15] bit number gpa/4096, eight pages per log byte")
    u.extracted_fn(bmp, "page_bit", contract="        ensures r == page % 8, r < 8 // [C15] least-significant bit first")
    span = bmp.impl_span(r'^impl MemRegionBitmap for AtomicBitmapMmap$')
    u.raw("impl AtomicBitmapMmap {")
    u.extracted_fn(bmp, "new", within=span, rename="new_bitmap",
                   sig_rw=[("R3", r'<R:\s*GuestMemoryRegion>', ''), ("R3", r'region:\s*&R', 'region: &RegionStub'),
                           ("R3", r'Arc<MmapLogReg>', 'MmapLogReg'), ("R10", r'io::Result<Self>', 'core::result::Result<Self, IoError>')],
                   body_rw=[("R6", r'region\.start_addr\(\)\.raw_value\(\)\.io_try_into\(\)\?', 'io_try_into_usize(region.start_addr_raw())?'),
                            ("R6", r'region\.len\(\)\.io_try_into\(\)\?', 'io_try_into_usize(region.len())?'),
                            ("R6", r'io::Error::from\(io::ErrorKind::InvalidData\)', 'invalid_data()'),
                            ("R6", r'region_start_addr\s*\.checked_add\(region_len - 1\)\s*\.ok_or\(invalid_data\(\)\)\?', 'ok_or_invalid_data(region_start_addr.checked_add(region_len - 1))?')],
                   contract="""
        ensures
            // [C15] accepted only if the log is large enough for the highest guest page of the region; then the bitmap is well-formed
            (r is Ok) == (region.len > 0 && region.start + (region.len - 1) <= usize::MAX && ((region.start + (region.len - 1)) / 4096) / 8 < logmem.len),
            r is Ok ==> r->Ok_0.pages_before_region == region.start / 4096 && r->Ok_0.number_of_pages == region.len / 4096 && r->Ok_0.logmem == logmem, // [C15]
            r is Ok && region.start % 4096 == 0 && region.len % 4096 == 0 ==> bitmap_wf(r->Ok_0), // [C15] page-aligned regions""")
    span = bmp.impl_span(r'^impl AtomicBitmapMmap$')
    u.extracted_fn(bmp, "mark_dirty", within=span,
                   sig_rw=[("R8", r'&self\b', '&mut self')],
                   body_rw=[("R17", r'self\.logmem\[page_word\(page\)\]\.fetch_or\(1 << page_bit\(page\), Ordering::Relaxed\);',
                             'proof { lemma_shl_bit(page_bit_spec(page)); } self.logmem.fetch_or_at(page_word(page), 1 << page_bit(page));')],
                   loops=[dict(kind="for", nth=0, iter="it", text="""            invariant_except_break
                bitmap_wf(*self), self.pages_before_region == old(self).pages_before_region, self.number_of_pages == old(self).number_of_pages,
                self.logmem.len == old(self).logmem.len, first_page <= last_page,
                self.pages_before_region + self.number_of_pages <= usize::MAX,
                self.logmem.writes@ == old(self).logmem.writes@ + expected_writes(*old(self), first_page as int, first_page + it.index@),
                first_page + it.index@ <= self.number_of_pages || it.index@ == 0,
            ensures
                bitmap_wf(*self), self.pages_before_region == old(self).pages_before_region, self.number_of_pages == old(self).number_of_pages,
                self.logmem.len == old(self).logmem.len,
                self.logmem.writes@ == old(self).logmem.writes@ + expected_writes(*old(self), first_page as int,
                    if last_page + 1 < self.number_of_pages { last_page + 1 } else if first_page < self.number_of_pages { self.number_of_pages as int } else { first_page as int }),""")],
                   contract="""
        requires bitmap_wf(*old(self)), old(self).pages_before_region + old(self).number_of_pages <= usize::MAX
        ensures
            final(self).pages_before_region == old(self).pages_before_region, final(self).number_of_pages == old(self).number_of_pages, final(self).logmem.len == old(self).logmem.len,
            // [C15] exactly the pages the write touches (clipped to the region), each as byte page/8 and bit page%8 of the ABSOLUTE page number, and nothing else
            len == 0 ==> final(self).logmem.writes@ == old(self).logmem.writes@,
            len > 0 ==> final(self).logmem.writes@ == old(self).logmem.writes@ + expected_writes(*old(self), first_page(offset),
                if last_page(offset, len) + 1 < old(self).number_of_pages { last_page(offset, len) + 1 } else if first_page(offset) < old(self).number_of_pages { old(self).number_of_pages as int } else { first_page(offset) }),""")
    u.raw("}")
    # ---- C15: BitmapMmapRegion (the bitmap the guest-memory accessors call): slice offsets are added to the write offset, the
    # shared inner bitmap does the page arithmetic; replace installs the new log
    rspan = bmp.impl_span(r'^impl Bitmap for BitmapMmapRegion')
    RW = [("R8", r'self\.inner\.(?:read|write)\(\)\.unwrap\(\)', 'self.inner.guard()'),
          ("R8", r'if let Some\(bitmap\) = inner\.as_ref\(\)', 'if let Some(bitmap) = inner'),
          ("R23", r'Arc::clone\(&self\.inner\)', 'self.inner.share()'),
          ("R8", r'inner\.replace\(bitmap\);', '*inner = Some(bitmap);')]
    u.raw("impl BitmapMmapRegion {")
    u.extracted_fn(bmp, "mark_dirty", within=rspan, rename="region_mark_dirty", sig_rw=[("R8", r'&self\b', '&mut self')], body_rw=RW, contract="""
        requires region_bitmap_wf(*old(self))
        ensures final(self).base_address == old(self).base_address, final(self).inner.id == old(self).inner.id,
            old(self).inner.b is None ==> final(self).inner.b is None, // no log installed: nothing recorded
            (old(self).inner.b is Some && old(self).base_address + offset > usize::MAX) ==> final(self).inner.b == old(self).inner.b, // (an offset beyond the address space cannot be a write)
            (old(self).inner.b is Some && old(self).base_address + offset <= usize::MAX) ==> final(self).inner.b is Some
                && md_post(old(self).inner.b->Some_0, final(self).inner.b->Some_0, (old(self).base_address + offset) as usize, len), // [C15:slice-offset] a write at `offset` of a slice is logged as a write at base_address + offset of the region""")
    u.extracted_fn(bmp, "slice_at", within=rspan, sig_rw=[("R3", r"<Self as WithBitmapSlice<'_>>::S", 'BitmapMmapRegion')],
                   body_rw=RW + [("R3", r'\bSelf \{', 'BitmapMmapRegion {')], contract="""
        ensures r.inner.id == self.inner.id && r.inner.b == self.inner.b, // [C15] a slice shares the region's (replaceable) inner bitmap
            r.base_address == (if self.base_address + offset <= usize::MAX { (self.base_address + offset) as usize } else { usize::MAX }), // [C15:slice-offset] offsets of nested slices add up""")
    u.raw("}")
    r2span = bmp.impl_span(r'^impl BitmapReplace for BitmapMmapRegion')
    u.raw("impl BitmapMmapRegion {")
    u.extracted_fn(bmp, "replace", within=r2span, sig_rw=[("R8", r'&self\b', '&mut self')], body_rw=RW, contract="""
        ensures final(self).inner.b == Some(bitmap), final(self).base_address == old(self).base_address, final(self).inner.id == old(self).inner.id, // [C15] SET_LOG_BASE's replace installs exactly the new log in the shared cell""")
    u.raw("}")
    # frame condition for "concurrent writers never lose each other's bits": the log is modified only by atomic fetch_or
    md = u.rw.strip_comments(bmp.fn_body("mark_dirty", within=span))
    u.scan(["C15"], "mark_dirty_writes_only_by_fetch_or",
           ".fetch_or(" in md and not re.search(r'\.(store|swap|fetch_and|fetch_xor|fetch_nand|compare_exchange\w*|write\w*)\(', md) and "ptr::" not in md,
           "AtomicBitmapMmap::mark_dirty modifies the shared log only through AtomicU8::fetch_or (A-ATOMIC makes that race-free)")
    whole = u.rw.strip_comments(bmp.src[:bmp.src.index("#[cfg(test)]")] if "#[cfg(test)]" in bmp.src else bmp.src)
    u.scan(["C15"], "bitmap_rs_no_other_log_write",
           len(re.findall(r'\.(store|swap|fetch_and|fetch_xor|compare_exchange\w*)\(', whole)) == 0 and whole.count(".fetch_or(") == 1,
           "bitmap.rs contains exactly one write to the log (the fetch_or in mark_dirty) and no store/swap/CAS on it")
    u.raw("pub open spec fn page_bit_spec(page: usize) -> usize { (page % 8) as usize }")
    # (C19: send_iotlb_msg, ioctl_result and io_result moved to unit `kern`)
    # (C17: VhostUserHandler::new is verified in unit `rank`; the former text anchor is gone)
    u.raw("fn main() {}\n} // verus!")
    return u
