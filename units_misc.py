"""Verus unit: loops and arithmetic that need unbounded reasoning (no bound on lengths / offsets):
connection.rs get_sub_iovs_offset, handler.rs vmm_va_to_gpa, bitmap.rs page arithmetic / AtomicBitmapMmap::{new, mark_dirty},
vhost_kern ioctl_result / io_result."""
import re
from vx import Unit, Source, ExtractError, sha

CONN = "vhost/src/vhost_user/connection.rs"
HND = "vhost-user-backend/src/handler.rs"
BMP = "vhost-user-backend/src/bitmap.rs"
KERN = "vhost/src/vhost_kern/mod.rs"


def build():
    u = Unit("misc")
    conn, hnd, bmp, kern = Source(CONN), Source(HND), Source(BMP), Source(KERN)
    u.raw("use vstd::prelude::*;\nverus! {\nglobal size_of usize == 8;   // A-ARITH: 64-bit target\n")
    u.env("misc.rs")
    # ---- C08: get_sub_iovs_offset
    u.raw("""
pub open spec fn sum_lens(s: Seq<usize>, n: int) -> int decreases n { if n <= 0 { 0 } else { sum_lens(s, n - 1) + s[n - 1] } }
""")
    u.extracted_fn(conn, "get_sub_iovs_offset",
                   loops=[dict(kind="for", nth=0, iter="it", text="""        invariant_except_break
            nr_skip == it.index@, sum_lens(iov_lens@, nr_skip as int) + size == skip_size, iov_lens@.len() <= usize::MAX,
        ensures
            nr_skip <= iov_lens@.len(), sum_lens(iov_lens@, nr_skip as int) + size == skip_size,
            nr_skip < iov_lens@.len() ==> size < iov_lens@[nr_skip as int],""")],
                   hints=[(r'for len in', "assert(iov_lens.len() <= usize::MAX);")],
                   contract="""
        ensures
            r.0 <= iov_lens@.len(), sum_lens(iov_lens@, r.0 as int) + r.1 == skip_size, // [C08] the skipped iovecs plus the offset account for exactly the bytes already transferred
            r.0 < iov_lens@.len() ==> r.1 < iov_lens@[r.0 as int], // [C08] ... and the offset lies inside the next iovec""")
    # ---- C13 / C05: vmm_va_to_gpa
    span = hnd.impl_span(r'^impl<T: VhostUserBackend> VhostUserHandler<T>$')
    u.raw("impl VhostUserHandler {")
    u.extracted_fn(hnd, "vmm_va_to_gpa", within=span,
                   loops=[dict(kind="for", nth=0, iter="it", text="""            invariant mappings_ok(self.mappings@),
                forall|j: int| 0 <= j < it.index@ ==> !contains_va(#[trigger] self.mappings@[j], vmm_va)""")],
                   hints=[(r'if vmm_va >= mapping\.vmm_addr', "assert(*mapping == self.mappings@[it.index@ as int]); assert(mapping_ok(self.mappings@[it.index@ as int]));")],
                   contract="""
        requires mappings_ok(self.mappings@)   // [C05] no overflow in vmm_addr + size / va - vmm_addr + gpa_base under the table invariant
        ensures
            r is Ok ==> exists|i: int| 0 <= i < self.mappings@.len() && contains_va(#[trigger] self.mappings@[i], vmm_va)
                && r->Ok_0 == self.mappings@[i].gpa_base + (vmm_va - self.mappings@[i].vmm_addr)
                && forall|j: int| 0 <= j < i ==> !contains_va(#[trigger] self.mappings@[j], vmm_va), // [C13,C14] gpa_base + (va - user_base) of the FIRST region containing va
            r is Ok ==> is_translation(self.mappings@, vmm_va, r->Ok_0),
            r is Err ==> forall|i: int| 0 <= i < self.mappings@.len() ==> !contains_va(#[trigger] self.mappings@[i], vmm_va), // [C13] rejected iff no region contains it""")
    span2 = hnd.impl_span(r'^impl<T: VhostUserBackend> VhostUserBackendReqHandlerMut for VhostUserHandler<T>')
    sva = u.rw.strip_comments(hnd.fn_body("set_vring_addr", within=span2))
    u.scan(["C14"], "set_vring_addr_calls", sva.count(".set_queue_info(") == 1 and sva.count(".queue_used_idx()") == 1 and sva.count(".set_queue_next_used(") == 1
           and sva.index(".set_queue_info(") < sva.index(".queue_used_idx()") < sva.index(".set_queue_next_used("),
           "set_vring_addr calls set_queue_info, queue_used_idx and set_queue_next_used exactly once each, in that order")
    u.extracted_fn(hnd, "set_vring_addr", within=span2,
                   body_rw=[("R6", r'self\s*\.vrings\s*\.get\(index as usize\)\s*\.ok_or\(VhostUserError::InvalidParam\)\?', 'vrings_get(&self.vrings, index as usize)?'),
                            ("R6", r'\.map_err\(\|e\| VhostUserError::ReqHandlerError\(io::Error::other\(e\)\)\)', '.map_err(|e: VhostUserHandlerError| -> (o: VhostUserError) { wrap_handler_err(e) })'),
                            ("R6", r'\.map_err\(\|_\| VhostUserError::InvalidParam\)', '.map_err(|e: VirtQueError| -> (o: VhostUserError) { VhostUserError::InvalidParam })'),
                            ("R6", r'\.map_err\(\|_\| VhostUserError::BackendInternalError\)', '.map_err(|e: VirtQueError| -> (o: VhostUserError) { VhostUserError::BackendInternalError })')],
                   contract="""
        requires mappings_ok(old(self).mappings@),
            // the ring may only be told the translations of the request's addresses, each in its own slot, and the used index read from guest memory
            (index as int) < old(self).vrings@.len() ==> (
                forall|g: u64| is_translation(old(self).mappings@, descriptor, g) ==> old(self).vrings@[index as int].exp@.desc == g)
                && (forall|g: u64| is_translation(old(self).mappings@, available, g) ==> old(self).vrings@[index as int].exp@.avail == g)
                && (forall|g: u64| is_translation(old(self).mappings@, used, g) ==> old(self).vrings@[index as int].exp@.used == g),
        ensures
            (index as int) >= old(self).vrings@.len() ==> r is Err, // [C14] out-of-range ring index rejected
            old(self).mappings@.len() == 0 ==> r is Err, // [C14]
            r is Ok ==> (exists|g: u64| is_translation(old(self).mappings@, descriptor, g)) && (exists|g: u64| is_translation(old(self).mappings@, available, g))
                && (exists|g: u64| is_translation(old(self).mappings@, used, g)), // [C14,C13] accepted only if every address lies in a current region""")
    u.raw("}")
    # ---- C13: ADD_MEM_REG / REM_MEM_REG (SET_MEM_TABLE's zip loop is outside the Verus dialect: not decided here)
    MEMRW = [("R6", r'Arc::new\(\s*GuestRegionMmap::new\(\s*region\.mmap_region\(file\)\?,\s*GuestAddress\(region\.guest_phys_addr\),\s*\)\s*\.ok_or\(VhostUserError::ReqHandlerError\(\s*io::ErrorKind::InvalidInput\.into\(\),?\s*\)\)\?,?\s*\)',
              'guest_region_new(region.mmap_region(file)?, GuestAddress(region.guest_phys_addr))?'),
             ("R6", r'\.map_err\(\|e\| VhostUserError::ReqHandlerError\(io::Error::other\(e\)\)\)', ''),
             ("R8", r'self\.atomic_mem\.lock\(\)\.unwrap\(\)\.replace\(mem\)', 'self.atomic_mem.replace_with(mem)'),
             ("R8", r'self\.atomic_mem\.clone\(\)', 'self.atomic_mem.clone_handle()'),
             ("R6", r'self\.mappings\s*\.retain\(\|mapping\| mapping\.gpa_base != region\.guest_phys_addr\)', 'retain_not_gpa(&mut self.mappings, region.guest_phys_addr)')]
    MEMSIG = [("R3", r'&VhostUserSingleMemoryRegion', '&RegionMsg'), ("R10", r'file:\s*File', 'file: FileStub')]
    u.raw("impl MemHandler {")
    u.extracted_fn(hnd, "add_mem_region", within=span2, sig_rw=MEMSIG, body_rw=MEMRW, contract="""
        requires mappings_ok(old(self).mappings@), region.memory_size > 0, region.user_addr + region.memory_size <= u64::MAX, region.guest_phys_addr + region.memory_size <= u64::MAX
        ensures
            r is Ok ==> final(self).atomic_mem.view@ == old(self).atomic_mem.view@.push(RegionDesc { gpa: region.guest_phys_addr, size: region.memory_size, file: file.id@, off: region.mmap_offset, logged: final(self).atomic_mem.view@.last().logged })
                && final(self).mappings@ == old(self).mappings@.push(AddrMapping { vmm_addr: region.user_addr, size: region.memory_size, gpa_base: region.guest_phys_addr })
                && final(self).backend.updates@ == old(self).backend.updates@.push(final(self).atomic_mem.view@), // [C13] exactly the accepted region, backed by the passed file at mmap_offset; backend notified once
            r is Ok ==> mappings_ok(final(self).mappings@), // [C05,C13] the table invariant the translation relies on
            r is Err ==> final(self).mappings@ == old(self).mappings@, // [C13] a failed update leaves the translation table intact
            r is Err ==> final(self).atomic_mem.view@ == old(self).atomic_mem.view@, // [C13:mem-intact] ... and the guest memory
            (r is Ok && old(self).atomic_mem.view@.len() > 0 && all_logged(old(self).atomic_mem.view@)) ==> all_logged(final(self).atomic_mem.view@), // [C15:log-kept] logging stays in force for all guest memory across memory-table changes""")
    u.extracted_fn(hnd, "remove_mem_region", within=span2, sig_rw=MEMSIG, body_rw=MEMRW, contract="""
        ensures
            r is Ok ==> (exists|i: int| 0 <= i < old(self).atomic_mem.view@.len() && old(self).atomic_mem.view@[i].gpa == region.guest_phys_addr
                         && old(self).atomic_mem.view@[i].size == region.memory_size && final(self).atomic_mem.view@ == old(self).atomic_mem.view@.remove(i)), // [C13]
            r is Ok ==> final(self).mappings@ == old(self).mappings@.filter(|m: AddrMapping| m.gpa_base != region.guest_phys_addr)
                && final(self).backend.updates@ == old(self).backend.updates@.push(final(self).atomic_mem.view@), // [C13]
            r is Err ==> final(self).mappings@ == old(self).mappings@, // [C13]
            r is Err ==> final(self).atomic_mem.view@ == old(self).atomic_mem.view@, // [C13:mem-intact]""")
    u.raw("}")
    u.raw("impl ReqFdHandler {")
    u.extracted_fn(hnd, "set_backend_req_fd", within=span2, sig_rw=[("R8", r'backend:\s*Backend', 'mut backend: BackendProxyStub')], contract="""
        requires !backend.reply_ack && !backend.shared_object && !backend.shmem    // a freshly created proxy (Backend::new: all flags false)
        ensures final(self).backend.got@.len() == old(self).backend.got@.len() + 1,
            // [C14] the channel handed to the backend carries exactly the negotiated reply-ack / shared-object / shared-memory settings
            final(self).backend.got@.last().reply_ack == (old(self).acked_protocol_features & 0x8 != 0),
            final(self).backend.got@.last().shared_object == (old(self).acked_protocol_features & 0x4_0000 != 0),
            final(self).backend.got@.last().shmem == (old(self).acked_protocol_features & 0x20_0000 != 0),""")
    u.raw("}")
    # ---- C15: page arithmetic, new, mark_dirty
    u.extracted_fn(bmp, "page_number", contract="        ensures r == addr / 4096 // [C15]")
    u.extracted_fn(bmp, "page_word", contract="        ensures r == page / 8 // [C15] bit number gpa/4096, eight pages per log byte")
    u.extracted_fn(bmp, "page_bit", contract="        ensures r == page % 8, r < 8 // [C15] least-significant bit first")
    span = bmp.impl_span(r'^impl MemRegionBitmap for AtomicBitmapMmap$')
    u.raw("impl AtomicBitmapMmap {")
    u.extracted_fn(bmp, "new", within=span, rename="new_bitmap",
                   sig_rw=[("R3", r'<R:\s*GuestMemoryRegion>', ''), ("R3", r'region:\s*&R', 'region: &RegionStub'),
                           ("R3", r'Arc<MmapLogReg>', 'MmapLogReg'), ("R10", r'io::Result<Self>', 'core::result::Result<Self, IoError>')],
                   body_rw=[("R6", r'region\.start_addr\(\)\.raw_value\(\)\.io_try_into\(\)\?', 'io_try_into_usize(region.start_addr_raw())?'),
                            ("R6", r'region\.len\(\)\.io_try_into\(\)\?', 'io_try_into_usize(region.len())?'),
                            ("R6", r'io::Error::from\(io::ErrorKind::InvalidData\)', 'invalid_data()'),
                            ("R6", r'region_start_addr\s*\.checked_add\(region_len - 1\)\s*\.ok_or\(invalid_data\(\)\)\?', 'ok_or_invalid_data(region_start_addr.checked_add(region_len - 1))?')],
                   contract="""
        ensures
            // [C15] accepted only if the log is large enough for the highest guest page of the region; then the bitmap is well-formed
            (r is Ok) == (region.len > 0 && region.start + (region.len - 1) <= usize::MAX && ((region.start + (region.len - 1)) / 4096) / 8 < logmem.len),
            r is Ok ==> r->Ok_0.pages_before_region == region.start / 4096 && r->Ok_0.number_of_pages == region.len / 4096 && r->Ok_0.logmem == logmem, // [C15]
            r is Ok && region.start % 4096 == 0 && region.len % 4096 == 0 ==> bitmap_wf(r->Ok_0), // [C15] page-aligned regions""")
    span = bmp.impl_span(r'^impl AtomicBitmapMmap$')
    u.extracted_fn(bmp, "mark_dirty", within=span,
                   sig_rw=[("R8", r'&self\b', '&mut self')],
                   body_rw=[("R17", r'self\.logmem\[page_word\(page\)\]\.fetch_or\(1 << page_bit\(page\), Ordering::Relaxed\);',
                             'proof { lemma_shl_bit(page_bit_spec(page)); } self.logmem.fetch_or_at(page_word(page), 1 << page_bit(page));')],
                   loops=[dict(kind="for", nth=0, iter="it", text="""            invariant_except_break
                bitmap_wf(*self), self.pages_before_region == old(self).pages_before_region, self.number_of_pages == old(self).number_of_pages,
                self.logmem.len == old(self).logmem.len, first_page <= last_page,
                self.pages_before_region + self.number_of_pages <= usize::MAX,
                self.logmem.writes@ == old(self).logmem.writes@ + expected_writes(*old(self), first_page as int, first_page + it.index@),
                first_page + it.index@ <= self.number_of_pages || it.index@ == 0,
            ensures
                bitmap_wf(*self), self.pages_before_region == old(self).pages_before_region, self.number_of_pages == old(self).number_of_pages,
                self.logmem.len == old(self).logmem.len,
                self.logmem.writes@ == old(self).logmem.writes@ + expected_writes(*old(self), first_page as int,
                    if last_page + 1 < self.number_of_pages { last_page + 1 } else if first_page < self.number_of_pages { self.number_of_pages as int } else { first_page as int }),""")],
                   contract="""
        requires bitmap_wf(*old(self)), old(self).pages_before_region + old(self).number_of_pages <= usize::MAX
        ensures
            final(self).pages_before_region == old(self).pages_before_region, final(self).number_of_pages == old(self).number_of_pages, final(self).logmem.len == old(self).logmem.len,
            // [C15] exactly the pages the write touches (clipped to the region), each as byte page/8 and bit page%8 of the ABSOLUTE page number, and nothing else
            len == 0 ==> final(self).logmem.writes@ == old(self).logmem.writes@,
            len > 0 ==> final(self).logmem.writes@ == old(self).logmem.writes@ + expected_writes(*old(self), first_page(offset),
                if last_page(offset, len) + 1 < old(self).number_of_pages { last_page(offset, len) + 1 } else if first_page(offset) < old(self).number_of_pages { old(self).number_of_pages as int } else { first_page(offset) }),""")
    u.raw("}")
    # frame condition for "concurrent writers never lose each other's bits": the log is modified only by atomic fetch_or
    md = u.rw.strip_comments(bmp.fn_body("mark_dirty", within=span))
    u.scan(["C15"], "mark_dirty_writes_only_by_fetch_or",
           ".fetch_or(" in md and not re.search(r'\.(store|swap|fetch_and|fetch_xor|fetch_nand|compare_exchange\w*|write\w*)\(', md) and "ptr::" not in md,
           "AtomicBitmapMmap::mark_dirty modifies the shared log only through AtomicU8::fetch_or (A-ATOMIC makes that race-free)")
    whole = u.rw.strip_comments(bmp.src[:bmp.src.index("#[cfg(test)]")] if "#[cfg(test)]" in bmp.src else bmp.src)
    u.scan(["C15"], "bitmap_rs_no_other_log_write",
           len(re.findall(r'\.(store|swap|fetch_and|fetch_xor|compare_exchange\w*)\(', whole)) == 0 and whole.count(".fetch_or(") == 1,
           "bitmap.rs contains exactly one write to the log (the fetch_or in mark_dirty) and no store/swap/CAS on it")
    u.raw("pub open spec fn page_bit_spec(page: usize) -> usize { (page % 8) as usize }")
    # ---- C19: ioctl_result / io_result
    for fn, ety in (("ioctl_result", "IoctlError"), ("io_result", "IOError")):
        u.extracted_fn(kern, fn, sig_rw=[("R10", r'Result<T>', 'KResult<T>')],
                       body_rw=[("R10", r'IoError::last_os_error\(\)', 'last_os_error()'), ("R10", r'Error::%s' % ety, 'KError::%s' % ety)],
                       contract="        ensures (r is Ok) == (rc >= 0), r is Ok ==> r->Ok_0 == res // [C19] a negative return is an error, anything else returns what the kernel wrote")
    # ---- C17: VhostUserHandler::new builds each worker's ring slice (thread spawn: outside Kani; iterator adapters: outside Verus).
    # The Kani harness c17_registration_rank_bounded re-states this construction in its set-up; the anchor below ties that
    # re-statement to the real text: if it changes, C17 is undecided (exit 2), never silently accepted.
    span3 = hnd.impl_span(r'^impl<T> VhostUserHandler<T> where')
    nb = re.sub(r'\s+', ' ', u.rw.strip_comments(hnd.fn_body("new", within=span3)))
    u.scan(["C17"], "handler_new_ring_slices_anchor",
           "for (index, vring) in vrings.iter().enumerate() { if (queues_mask >> index) & 1u64 == 1u64 { thread_vrings.push(vring.clone()); } }" in nb
           and "VringEpollHandler::new(backend.clone(), thread_vrings, thread_id)" in nb
           and "for (thread_id, queues_mask) in queues_per_thread.iter().enumerate()" in nb,
           "VhostUserHandler::new builds worker t's ring slice as the rings whose bit is set in mask t, in increasing queue order (text anchor for the harness set-up)",
           on_fail="undecided")
    u.raw("fn main() {}\n} // verus!")
    return u
