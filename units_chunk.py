"""Verus unit `chunk` (C08): the partial-I/O loops of connection.rs, for EVERY iovec list, EVERY length and EVERY chunking
the socket primitive may choose (no bound): get_sub_iovs_offset, Endpoint::send_iovec_all, Endpoint::recv_into_iovec_all.
The socket primitive (send_iovec / recv_into_iovec = one sendmsg / recvmsg) is the assumed boundary (A-OS); termination
(a peer that makes the socket return `retry` forever) is liveness and is NOT decided (exec_allows_no_decreases_clause)."""
import re
from vx import Unit, Source, ExtractError

CONN = "vhost/src/vhost_user/connection.rs"

SUB_LOOP = dict(kind="for", nth=0, iter="it", text="""        invariant_except_break
            nr_skip == it.index@, sum_lens(iov_lens@, nr_skip as int) + size == skip_size, iov_lens@.len() <= usize::MAX,
        ensures
            nr_skip <= iov_lens@.len(), sum_lens(iov_lens@, nr_skip as int) + size == skip_size,
            nr_skip < iov_lens@.len() ==> size < iov_lens@[nr_skip as int],""")
SUB_CONTRACT = """
        ensures
            r.0 <= iov_lens@.len(), sum_lens(iov_lens@, r.0 as int) + r.1 == skip_size, // [C08] the skipped iovecs plus the offset account for exactly the bytes already transferred
            r.0 < iov_lens@.len() ==> r.1 < iov_lens@[r.0 as int], // [C08] ... and the offset lies inside the next iovec"""

R19 = [
    ("R19", r'iovs\.iter\(\)\.map\(\|iov\| iov\.len\(\)\)\.collect\(\)', 'iov_lens_of(iovs)'),
    ("R19", r'iovs\.iter\(\)\.map\(\|iov\| iov\.iov_len\)\.collect\(\)', 'iovec_lens_of(iovs)'),
    ("R19", r'(\w+) \+= len;', r'\1 += *len;'),
    ("R19", r'&iovs\[(\w+)\]\[(\w+)\.\.\]', r'slice_from(iovs[\1], \2)'),
    ("R19", r'&\[&\[(\w+)\], &iovs\[([^\]]+?)\.\.\]\]\.concat\(\)', r'&concat_tail(\1, iovs, \2)'),
    ("R19", r'\[&\[(\w+)\], &iovs\[([^\]]+?)\.\.\]\]\.concat\(\)', r'concat_tail(\1, iovs, \2)'),
    ("R19", r'\[\s*&\[(iovec \{[^}]*\})\],\s*&iovs\[([^\]]+?)\.\.\],?\s*\]\s*\.concat\(\)', r'concat_tail_iovec(\1, iovs, \2)'),
    ("R20", r'as \*mut c_void', 'as usize'),
]
SUM_LOOP = dict(kind="for", nth=0, iter="it", text="""            invariant data_total == sum_lens(iov_lens@, it.index@ as int), sum_lens(iov_lens@, iov_lens@.len() as int) <= usize::MAX""")
SUM_HINTS = [
    (r'for len in', "assert(iov_lens.len() <= usize::MAX); lemma_sum_mono(iov_lens@, 0, iov_lens@.len() as int);"),
    (r'data_total \+= \*len;', "lemma_sum_mono(iov_lens@, it.index@ as int + 1, iov_lens@.len() as int); assert(*len == iov_lens@[it.index@ as int]);"),
]


def build():
    u = Unit("chunk")
    conn = Source(CONN)
    u.raw("use vstd::prelude::*;\nverus! {\nglobal size_of usize == 8;   // A-ARITH: 64-bit target\n")
    u.env("chunk.rs")
    u.extracted_fn(conn, "get_sub_iovs_offset", loops=[SUB_LOOP],
                   hints=[(r'for len in', "assert(iov_lens.len() <= usize::MAX);")], contract=SUB_CONTRACT)
    # ------------------------------------------------------------------ errno classification used by the loops (mod.rs)
    modrs = Source("vhost/src/vhost_user/mod.rs")
    fspan = modrs.impl_span(r'^impl std::convert::From<vmm_sys_util::errno::Error> for Error')
    u.extracted_fn(modrs, "from", within=fspan, rename="error_from_errno",
                   sig_rw=[("R10", r'vmm_sys_util::errno::Error', 'ErrnoError'), ("R3", r'-> Self', '-> Error')],
                   body_rw=[("R10", r'IOError::from_raw_os_error\(([^)]+)\)', r'\1')],
                   contract="""
        ensures r == classify(err.e), // [C08:errno-classes] retry exactly for EAGAIN/EWOULDBLOCK, EINTR, ENOBUFS, ENOMEM; broken for ECONNRESET, EPIPE; the errno is carried unchanged""")
    span = conn.impl_span(r'^impl<H: MsgHeader> Endpoint<H>')
    u.raw("impl Endpoint {")
    # ------------------------------------------------------------------ sender
    # the total length is either accumulated in a `for` loop or computed with `iov_lens.iter().sum()` (both forms are handled)
    def sum_form(fn):
        return re.search(r'\.iter\(\)\s*\.sum\b', u.rw.strip_comments(conn.fn_body(fn, within=span))) is not None
    SUMRW = [("R19", r'(let (?:mut )?\w+)(?::\s*usize)?\s*=\s*iov_lens\s*\.iter\(\)\s*\.sum(?:::<usize>)?\(\);', r'\1: usize = sum_of_lens(&iov_lens);')]
    s_sum = sum_form("send_iovec_all")
    u.extracted_fn(conn, "send_iovec_all", within=span, body_rw=R19 + SUMRW,
                   loops=([] if s_sum else [SUM_LOOP]) + [dict(kind="while", nth=0, text="""            invariant
                iov_lens@ == lens(views(iovs@)), iovs@.len() == iov_lens@.len(), iovs@.len() <= usize::MAX,
                forall|i: int| 0 <= i < iovs@.len() ==> (#[trigger] views(iovs@)[i]).len() <= usize::MAX,
                data_total == sum_lens(iov_lens@, iov_lens@.len() as int), data_total == flat(views(iovs@)).len(),
                data_sent <= data_total,
                self.wire@ =~= old(self).wire@ + flat(views(iovs@)).subrange(0, data_sent as int),
                self.calls@.len() >= old(self).calls@.len(),
                self.calls@.subrange(0, old(self).calls@.len() as int) =~= old(self).calls@,
                fds_first_byte_only(old(self).calls@.len() as int, self.calls@, old(self).wire@.len() as int, ofds(fds)),
            decreases data_total - data_sent, self.retry_budget@,   // [C08:terminates] every iteration transfers at least one byte, returns, or uses up one `retry` answer""")],
                   hints=([] if s_sum else SUM_HINTS) + [
                       (r'while \(data_total - data_sent\) > 0', """assert(iov_lens.len() <= usize::MAX); let v = views(iovs@);
            assert forall|i: int| 0 <= i < v.len() implies (#[trigger] v[i]).len() <= usize::MAX by { assert(iovs@[i]@.len() <= usize::MAX); assert(v[i] == iovs@[i]@); }
            lemma_flat_len(v, v.len() as int); assert(v.subrange(0, v.len() as int) =~= v);"""),
                       (r'let \w+ = slice_from', "lemma_sum_mono(iov_lens@, nr_skip as int, iov_lens@.len() as int);"),
                       (r'(?:let \w+ = |match )self\.send_iovec\(', """lemma_tail(views(iovs@), nr_skip as int, offset as int, data_sent as int);
                assert(views(iovs@).subrange(nr_skip + 1, iovs@.len() as int) =~= views(iovs@).subrange(nr_skip + 1, views(iovs@).len() as int));"""),
                   ],
                   contract="""
        requires sum_lens(lens(views(iovs@)), iovs@.len() as int) <= usize::MAX   // A-SUM: the total length of the buffers fits usize (they are live allocations)
        ensures
            match r {
                Ok(n) => n <= flat(views(iovs@)).len() && final(self).wire@ =~= old(self).wire@ + flat(views(iovs@)).subrange(0, n as int), // [C08:sender-in-order-once] the bytes put on the wire are exactly the first n bytes of hdr|body|payload, each once, in order, whatever part of each write the socket accepted
                Err(_) => exists|k: int| 0 <= k <= flat(views(iovs@)).len() && final(self).wire@ =~= old(self).wire@ + flat(views(iovs@)).subrange(0, k), // [C08:sender-prefix-on-error] an error leaves a prefix on the wire, never a gap or a repetition
            },
            r is Err ==> !(r->Err_0 is SocketRetry), // [C08:retry] a retry-class error is retried, never surfaced
            (r is Ok && r->Ok_0 < flat(views(iovs@)).len()) ==> final(self).stalled@, // [C08:short-only-when-stalled] a short count is returned only after the socket accepted 0 bytes of a non-empty write
            final(self).calls@.len() >= old(self).calls@.len(),
            final(self).calls@.subrange(0, old(self).calls@.len() as int) =~= old(self).calls@,
            fds_first_byte_only(old(self).calls@.len() as int, final(self).calls@, old(self).wire@.len() as int, ofds(fds)), // [C08:fds-first-byte,C01] every sendmsg that starts at the message's first byte carries the caller's descriptors, every later one carries none""")
    # ------------------------------------------------------------------ receiver
    r_sum = sum_form("recv_into_iovec_all")
    u.extracted_fn(conn, "recv_into_iovec_all", within=span, body_rw=R19 + SUMRW,
                   sig_rw=[("R20", r'\bunsafe\s+fn\b', 'fn')],
                   loops=([] if r_sum else [SUM_LOOP]) + [dict(kind="while", nth=0, text="""            invariant
                iovs@ == old(iovs)@, v == aviews(iovs@), iov_lens@ == lens(v), iovs@.len() == iov_lens@.len(), iovs@.len() <= usize::MAX,
                forall|i: int| 0 <= i < iovs@.len() ==> iov_ok(#[trigger] iovs@[i]),
                forall|i: int| 0 <= i < v.len() ==> (#[trigger] v[i]).len() <= usize::MAX,
                data_total == sum_lens(iov_lens@, iov_lens@.len() as int), data_total == flat(v).len(),
                data_read <= data_total,
                self.pos@ == old(self).pos@ + data_read,
                self.stored@ =~= old(self).stored@ + deliver(flat(v).subrange(0, data_read as int), old(self).pos@),
                data_read == 0 ==> self.rcalls@ == old(self).rcalls@ && rfds is None,
                data_read > 0 ==> first_chunk_files(old(self).rcalls@, self.rcalls@, old(self).pos@, data_read as int, fids(rfds)),
            decreases data_total - data_read, self.retry_budget@,   // [C08:terminates]""")],
                   hints=([] if r_sum else SUM_HINTS) + [
                       (r'while \(data_total - data_read\) > 0', "let ghost v = aviews(iovs@);", "ghost"),
                       (r'while \(data_total - data_read\) > 0', """assert(iov_lens.len() <= usize::MAX); lemma_flat_len(v, v.len() as int); assert(v.subrange(0, v.len() as int) =~= v);
            assert(deliver(flat(v).subrange(0, 0), self.pos@) =~= Seq::empty());
            assert(self.stored@ =~= self.stored@ + deliver(flat(v).subrange(0, 0), self.pos@));"""),
                       (r'let iov = &mut iovs\[nr_skip\]', "lemma_sum_mono(iov_lens@, nr_skip as int, iov_lens@.len() as int);"),
                       (r'(?:let \w+ = |match )self\.recv_into_iovec\(', """let k = nr_skip as int; let off = offset as int;
                lemma_tail(v, k, off, data_read as int);
                assert(v[k] == addrs(iovs@[k]));
                assert(addrs(data@[0]) =~= v[k].subrange(off, v[k].len() as int));
                assert forall|i: int| 1 <= i < data@.len() implies addrs(#[trigger] data@[i]) == v[k + i] by { assert(data@[i] == iovs@[k + i]); }
                assert(aviews(data@) =~= seq![v[k].subrange(off, v[k].len() as int)] + v.subrange(k + 1, v.len() as int));"""),
                       (r'data_read \+= n;', "assert(self.stored@ =~= old(self).stored@ + deliver(flat(v).subrange(0, data_read as int), old(self).pos@));", "after"),
                   ],
                   contract="""
        requires forall|i: int| 0 <= i < old(iovs)@.len() ==> iov_ok(#[trigger] old(iovs)@[i]),   // safety contract of the unsafe fn: every iovec describes a live buffer (base + len does not wrap)
            sum_lens(lens(aviews(old(iovs)@)), old(iovs)@.len() as int) <= usize::MAX   // A-SUM
        ensures final(iovs)@ == old(iovs)@,
            r is Err ==> !(r->Err_0 is SocketRetry), // [C08:retry]
            (r is Ok && r->Ok_0.0 < flat(aviews(old(iovs)@)).len()) ==> final(self).eof@, // [C08:short-only-at-eof] fewer bytes than asked for only at end of stream: however the transport segments the bytes, the caller gets all of them
            match r {
                Ok((n, files)) => n <= flat(aviews(old(iovs)@)).len() && final(self).pos@ == old(self).pos@ + n
                    && final(self).stored@ =~= old(self).stored@ + deliver(flat(aviews(old(iovs)@)).subrange(0, n as int), old(self).pos@) // [C08:receiver-reassembly] the k-th byte of the stream is stored at the k-th address of the caller's buffers, once, in order, however the transport split the message
                    && first_chunk_files(old(self).rcalls@, final(self).rcalls@, old(self).pos@, n as int, fids(files)), // [C08:fds-first-chunk,C09] the descriptors returned are those that arrived with the first byte; none from later chunks
                Err(_) => exists|k: int| 0 <= k <= flat(aviews(old(iovs)@)).len() && final(self).pos@ == old(self).pos@ + k
                    && final(self).stored@ =~= old(self).stored@ + deliver(flat(aviews(old(iovs)@)).subrange(0, k), old(self).pos@), // [C08:receiver-prefix-on-error]
            }""")
    # ------------------------------------------------------------------ recv_into_iovec: every descriptor the kernel installed is wrapped (owned) exactly once
    maxfd = Source("vhost/src/vhost_user/message.rs").const_value("MAX_ATTACHED_FD_ENTRIES")
    if maxfd != "32":
        raise ExtractError("unsupported construct: MAX_ATTACHED_FD_ENTRIES = %s (environment written for 32)" % maxfd)
    u.extracted_fn(conn, "recv_into_iovec", within=span, rename="recv_into_iovec_real",
                   sig_rw=[("R20", r'\bunsafe\s+fn\b', 'fn')],
                   body_rw=[("R19", r'vec!\[0; MAX_ATTACHED_FD_ENTRIES\]', 'vec_fds_zeroed(MAX_ATTACHED_FD_ENTRIES)'),
                            ("R20", r'self\.sock\.recv_with_fds\(iovs, &mut fd_array\)\?', 'self.sock_recv_with_fds_into(iovs, &mut fd_array)?'),
                            ("R19", r'fd_array\s*\.iter\(\)\s*\.take\(n\)\s*\.map\(\|fd\| \{\s*File::from_raw_fd\(\*fd\)\s*\}\)\s*\.collect\(\)', 'wrap_fds(&fd_array, n)')],
                   contract="""
        ensures final(iovs)@ == old(iovs)@,
            r is Err ==> final(self).raw@ == old(self).raw@, // [C09:no-raw-leak] an error is returned only when the kernel installed no descriptor: nothing received is left unowned
            r is Ok ==> final(self).raw@ =~= old(self).raw@ + (match fids(r->Ok_0.1) { Some(s) => s, None => Seq::empty() }), // [C09:wrap-each-once] every descriptor installed by this recvmsg is owned by exactly one returned File, in order
            r is Ok ==> (r->Ok_0.1 is Some ==> r->Ok_0.1->Some_0@.len() > 0), // [C09] a returned descriptor list is never empty""")
    # ------------------------------------------------------------------ recv_data (payload receive: loops until len bytes or end of stream)
    u.extracted_fn(conn, "recv_data", within=span,
                   body_rw=[("R19", r'vec!\[0u8; len\]', 'vec_zeroed(len)'),
                            ("R20", r'rbuf\[([^\]]*?)\.\.\]\.as_mut_ptr\(\) as \*mut c_void', r'tail_addr(&mut rbuf, \1)'),
                            ("R20", r'rbuf\.as_mut_ptr\(\) as \*mut c_void', 'tail_addr(&mut rbuf, 0)'),
                            ("R20", r'unsafe \{ self\.sock\.recv_with_fds\(&mut iovs, &mut \[\]\)\? \}', 'self.sock_recv_with_fds(&mut iovs, &mut [])?')],
                   loops=[dict(kind="while", nth=0, text="""            invariant_except_break
                data_read <= len,
            invariant
                rbuf@.len() == len, base_of(&rbuf) == b0, b0 + len <= usize::MAX,
                self.pos@ == old(self).pos@ + data_read, data_read <= len,
                self.stored@ =~= old(self).stored@ + deliver(Seq::new(data_read as nat, |k: int| b0 + k), old(self).pos@),
                self.wire@ == old(self).wire@, self.calls@ == old(self).calls@,
            ensures
                rbuf@.len() == len, base_of(&rbuf) == b0, data_read <= len,
                self.pos@ == old(self).pos@ + data_read,
                self.stored@ =~= old(self).stored@ + deliver(Seq::new(data_read as nat, |k: int| b0 + k), old(self).pos@),
                self.wire@ == old(self).wire@, self.calls@ == old(self).calls@,
            decreases len - data_read,   // [C08:terminates] end of stream (0 bytes) ends the loop: a closed peer cannot make the receiver spin""")],
                   hints=[(r'let mut data_read = 0;', "let ghost b0 = base_of(&rbuf);", "ghost"),
                          (r'while data_read < len', "assert(deliver(Seq::new(0 as nat, |k: int| b0 + k), self.pos@) =~= Seq::empty());"),
                          (r'data_read \+= bytes;', "assert(self.stored@ =~= old(self).stored@ + deliver(Seq::new(data_read as nat, |k: int| b0 + k), old(self).pos@));", "after")],
                   contract="""
        ensures
            r is Err ==> old(self).pos@ <= final(self).pos@ <= old(self).pos@ + len, // [C08] an error consumes at most a prefix
            r is Ok ==> r->Ok_0.0 <= len && r->Ok_0.1@.len() == len && final(self).pos@ == old(self).pos@ + r->Ok_0.0
                && final(self).stored@ =~= old(self).stored@ + deliver(Seq::new(r->Ok_0.0 as nat, |k: int| base_of(&r->Ok_0.1) + k), old(self).pos@), // [C08:recv-data-reassembly] byte k of the stream is stored at element k of the returned buffer, for every segmentation of the payload
            final(self).wire@ == old(self).wire@,""")
    u.raw("}")
    u.raw("fn main() {}\n} // verus!")
    return u
